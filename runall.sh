#!/bin/bash
# ./runall.sh [quick|thorough] [ids...]  — runs every registered check, one summary line each
D="$(cd "$(dirname "${BASH_SOURCE[0]}")" && pwd)"
tier="${1:-quick}"; shift
ids="$@"
[ -z "$ids" ] && ids=$(python3 -c "import json;print(' '.join(c['property_id'] for c in json.load(open('$D/MANIFEST.json'))['checks']))")
rc=0
for id in $ids; do
  t0=$(date +%s); out=$("$D/run.sh" $id $tier 2>&1); code=$?; t1=$(date +%s)
  echo "$id exit=$code wall=$((t1-t0))s $(echo "$out" | grep -c '^VIOLATION') violation-lines; $(echo "$out" | grep -c '^KNOWN-FINDING') known; $(echo "$out" | head -1)"
  [ $code -ne 0 ] && { rc=1; echo "$out" | grep -A3 '^VIOLATION\|^INCONCLUSIVE\|BUILD-FAILED' | head -20; }
done
exit $rc
