#!/bin/bash
# ./run.sh <Cxx> <quick|thorough>      run one check (rebuilds the harness against /repo's working tree)
# ./run.sh build                       build only
# ./run.sh replay <file>               re-execute a recorded violation
set -u
export GOFLAGS=-mod=mod GOPROXY=off GOSUMDB=off GOTOOLCHAIN=local
export VERIF_DIR="$(cd "$(dirname "${BASH_SOURCE[0]}")" && pwd)"
H="$VERIF_DIR/harness"
BIN="$VERIF_DIR/bin"
mkdir -p "$BIN"

# VERIF_REPO (default /repo) lets the same harness be pointed at a scratch worktree (mutation testing);
# registered checks never set it, so they always build against /repo's working tree.
MODFLAG=""
if [ -n "${VERIF_REPO:-}" ] && [ "$VERIF_REPO" != "/repo" ]; then
  BIN="$VERIF_DIR/bin/alt-$(echo "$VERIF_REPO" | tr '/' '_')"
  mkdir -p "$BIN"
  sed "s#=> /repo#=> $VERIF_REPO#" "$H/go.mod" > "$BIN/go.mod"
  cp "$H/go.sum" "$BIN/go.sum" 2>/dev/null
  MODFLAG="-modfile=$BIN/go.mod"
  export VERIF_WORK_TAG="$(basename "$VERIF_REPO")"
fi

build() {
  ( cd "$H" && go build $MODFLAG -tags verif -o "$BIN/vcheck" ./cmd/vcheck ) || { echo "BUILD-FAILED (plain)"; return 1; }
  if [ "${1:-}" = race ]; then
    ( cd "$H" && go build $MODFLAG -race -tags verif -o "$BIN/vcheck-race" ./cmd/vcheck ) || { echo "BUILD-FAILED (race)"; return 1; }
  fi
}

needs_race() { case "$1" in C10|C11) return 0;; esac; return 1; }

case "${1:-}" in
  build) build race || exit 2 ;;
  replay) build race || exit 2; exec "$BIN/vcheck" replay "$2" ;;
  list) build || exit 2; exec "$BIN/vcheck" list ;;
  C*)
    tier="${2:-${VERIF_TIER:-quick}}"
    if needs_race "$1"; then build race || exit 2; else build || exit 2; fi
    exec "$BIN/vcheck" run "$1" "$tier"
    ;;
  *) echo "usage: $0 <Cxx> <quick|thorough> | build | replay <file> | list"; exit 2 ;;
esac
