package mon

import (
	"bufio"
	"bytes"
	"fmt"
	"math"
	"os"
	"path/filepath"
	"strings"
	"sync"

	stackage "github.com/JesseCoretta/go-stackage"
	"verifharness/core"
)

// C19 — Defrag removes every nil gap and nothing else.

var c19Limits = []int{0, 3, 60} // 0 = default (50)

func c19Tier(tier string) (maxLen, exh, long, nested int) {
	if tier == "thorough" {
		return 12, ((1 << 13) - 1) * 3 * 4, 2000000, 2000000
	}
	return 10, ((1 << 11) - 1) * 3 * 4, 30000, 30000
}

// pattern string: 'x' element, '.' nil
func c19Pattern(n int) string {
	// n enumerates all bit strings of length 0,1,2,...: lengths L have 2^L members
	L := 0
	for n >= 1<<L {
		n -= 1 << L
		L++
	}
	b := make([]byte, L)
	for i := 0; i < L; i++ {
		if n&(1<<i) != 0 {
			b[i] = 'x'
		} else {
			b[i] = '.'
		}
	}
	return string(b)
}

func maxNilRun(p string) int {
	best, cur := 0, 0
	for i := 0; i < len(p); i++ {
		if p[i] == '.' {
			cur++
			if cur > best {
				best = cur
			}
		} else {
			cur = 0
		}
	}
	return best
}

// c19Classify compares a defragmented content with the original; returns "" (correct) or a signature.
func c19Classify(orig, res []any) string {
	var exp []any
	for _, v := range orig {
		if v != nil {
			exp = append(exp, v)
		}
	}
	if sameContent(exp, res) {
		return ""
	}
	// expected[:m] ++ nil*  — order intact, nothing foreign, only the cut point is wrong
	m := 0
	for m < len(res) && m < len(exp) && res[m] != nil && SameValue(res[m], exp[m]) {
		m++
	}
	tailNil := true
	for i := m; i < len(res); i++ {
		if res[i] != nil {
			tailNil = false
			break
		}
	}
	if tailNil {
		return "defrag:truncation"
	}
	if sameContent(orig, res) {
		return "defrag:untouched"
	}
	return "defrag:corrupt"
}

// c19Known reproduces, step by step, what the pinned tree's Defrag does to a flat stack (scan pattern, relocation loop,
// the 'last' arithmetic of the verification step): the exact outcome of the KNOWN truncation defect for any pattern, so
// that a wrong result of any other shape or size is told apart from it. fwd = forward-index option of the stack.
func c19Known(orig []any, max int, fwd bool) (res []any, errSet bool) {
	L := len(orig)
	raw := make([]any, L+1)
	raw[0] = "cfg"
	copy(raw[1:], orig)
	present := func(i int) bool {
		if L == 0 {
			return false
		}
		if i > L-1 {
			if !fwd {
				return false
			}
			return raw[L] != nil
		}
		return raw[i+1] != nil
	}
	start := -1
	spat := make([]int, L+1)
	for i := 0; i < L+1; i++ {
		if !present(i) {
			if start == -1 {
				start = i
			}
			continue
		}
		spat[i] = 1
	}
	if start == -1 {
		return append([]any{}, orig...), false
	}
	tpat := make([]int, L+1)
	tpat[0] = 1
	ct, run := 0, 0
	for run < max && start+ct < L {
		if raw[start+ct+1] == nil {
			ct++
			run++
			continue
		}
		raw[start+1] = raw[start+ct+1]
		tpat[start+ct] = 1
		raw[start+ct+1] = nil
		start++
		run = 0
	}
	last, fail := -1, false
	for i := 1; i < len(spat); i++ {
		fail = spat[i] != tpat[i]
		if tpat[i] != 0 {
			last = (i - 1 + i) - len(tpat)
		}
	}
	last--
	if !fail && last >= 0 && last+1 <= len(raw) {
		raw = raw[:last+1]
	}
	return raw[1:], fail
}

var (
	c19PinOnce sync.Once
	c19Pins    map[string]string
)

func c19LoadPins() {
	c19Pins = map[string]string{}
	f, err := os.Open(filepath.Join(core.VerifDir, "C19_pinned.txt"))
	if err != nil {
		return
	}
	defer f.Close()
	sc := bufio.NewScanner(f)
	for sc.Scan() {
		fs := strings.Fields(sc.Text())
		if len(fs) == 2 && !strings.HasPrefix(fs[0], "#") {
			c19Pins[fs[0]] = fs[1]
		}
	}
}

func c19Outcome(res []any, err error) string {
	// shape of the result: elements kept, trailing nils, error flag
	kept, nils := 0, 0
	for _, v := range res {
		if v != nil {
			kept++
		} else {
			nils++
		}
	}
	e := 0
	if err != nil {
		e = 1
	}
	return fmt.Sprintf("%d+%d/e%d", kept, nils, e)
}

// typed nil pointers are elements like any other (a non-nil interface value): never a gap
var c19TypedNils = []any{(*int)(nil), (*string)(nil), (*float64)(nil), (*AStack)(nil),
	// ... and values that cannot be compared with == (or are not equal to themselves): elements like any other
	[]string{"u1", "u2"}, map[string]int{"k": 1}, math.NaN(), struct{ V []int }{[]int{1}}}

func buildPattern(kind, p string, next func() any) (stackage.Stack, []any) {
	s := NewStack(kind, 0)
	var orig []any
	tn := 0
	for i := 0; i < len(p); i++ {
		if p[i] == 'x' {
			v := next()
			if (i*7+len(p))%11 == 3 && tn < len(c19TypedNils) {
				v = c19TypedNils[tn] // (each type at most once per stack, so positions stay identifiable)
				tn++
			}
			s.Push(v)
			orig = append(orig, v)
		} else {
			s.Push(nil)
			orig = append(orig, nil)
		}
	}
	return s, orig
}

func c19Flat(c *core.Ctx, p string, limit int, neg, fwd bool, kind string, pinned bool) {
	next := uniqueVals()
	s, orig := buildPattern(kind, p, next)
	if neg {
		s.SetNegativeIndices(true)
	}
	if fwd {
		s.SetForwardIndices(true)
	}
	desc := map[string]any{"pattern": p, "limit": limit, "neg": neg, "fwd": fwd, "kind": kind}
	if !pinned && c.Idx%4 == 1 {
		// an error left over from an earlier, unrelated call: a Defrag that succeeds leaves Err() nil all the same
		s.SetErr(errPolicyRejects)
		desc["prior_error"] = true
		c.Count("with-prior-error")
	}
	if !pinned && c.Idx%5 == 2 {
		// a Defrag refused because the stack is read-only leaves nothing behind: once the flag is lifted the call works
		s.SetReadOnly(true)
		if limit == 0 {
			s.Defrag()
		} else {
			s.Defrag(limit)
		}
		if got := contentOf(s); !sameContent(got, orig) {
			c.Violatef("defrag:changed-while-read-only", desc, "Defrag changed a read-only stack: %s -> %s", showList(orig), showList(got))
			return
		}
		s.SetReadOnly(false)
		desc["refused_once_while_read_only"] = true
		c.Count("refused-once-while-read-only")
	}
	before, _ := Take(s)
	var pn bool
	var msg, site string
	if limit == 0 {
		pn, msg, site = Guard(func() { s.Defrag() })
	} else {
		pn, msg, site = Guard(func() { s.Defrag(limit) })
	}
	if pn {
		c.Violatef("panic:"+site, desc, "Defrag panicked on pattern %q: %s", p, msg)
		return
	}
	lim := limit
	if lim == 0 {
		lim = 50
	}
	if maxNilRun(p) >= lim {
		c.Count("not-judged.run-reaches-limit")
		return
	}
	c.Count("judged")
	res := contentOf(s)
	after, _ := Take(s)
	if d := CfgDiff(before.S, after.S, 0, "err"); d != "" {
		c.Violatef("defrag:config-changed", desc, "Defrag changed the configuration: %s", d)
		return
	}
	sig := c19Classify(orig, res)
	if !strings.Contains(p, ".") {
		// a stack without nil elements must be left untouched
		opts := DiffOpts{}
		if desc["prior_error"] != nil {
			// "Err() is nil" and "left untouched" pull in opposite directions for the error slot alone: either is accepted
			opts.SkipRoot = []string{"err"}
		}
		if d := Diff(before, after, opts); d != "" {
			c.Violatef("defrag:gapfree-changed", desc, "Defrag changed a gap-free stack: %s", d)
		}
		c.Count("gap-free")
		return
	}
	if s.Len() != len(res) {
		c.Violatef("defrag:len", desc, "Len()=%d but %d raw slots", s.Len(), len(res))
		return
	}
	err := s.Err()
	if sig == "" && err != nil {
		sig = "defrag:spurious-err"
	}
	if sig == "" && strings.Contains(p, ".") && strings.Contains(p, "x") && !pinned && c.Idx%3 == 0 {
		// the stack is compact now: shrink it, refill it with a fresh gap pattern (same or smaller length) and defragment
		// again - the second call must not rely on anything remembered from the first
		keep := s.Len() / 2
		for s.Len() > keep {
			s.Pop()
		}
		orig2 := append([]any{}, contentOf(s)...)
		for i := 0; i < len(p)-keep-1 && i < 6; i++ {
			if i%2 == 0 {
				s.Push(nil)
				orig2 = append(orig2, nil)
			} else {
				v := next()
				s.Push(v)
				orig2 = append(orig2, v)
			}
		}
		last := next()
		s.Push(last)
		orig2 = append(orig2, last)
		if limit == 0 {
			s.Defrag()
		} else {
			s.Defrag(limit)
		}
		// reference: a fresh stack holding the same content, defragmented once (so the known truncation behaviour, where it
		// applies, is the same on both sides and only a dependence on history can make them differ)
		fresh := NewStack(kind, 0)
		for _, v := range orig2 {
			fresh.Push(v)
		}
		if neg {
			fresh.SetNegativeIndices(true)
		}
		if fwd {
			fresh.SetForwardIndices(true)
		}
		if limit == 0 {
			fresh.Defrag()
		} else {
			fresh.Defrag(limit)
		}
		if got, want := showList(contentOf(s)), showList(contentOf(fresh)); got != want || (s.Err() == nil) != (fresh.Err() == nil) {
			c.Violatef("defrag:history-dependent", desc, "pattern %q: after Defrag, shrink and refill to %s a second Defrag gives %s, a fresh stack with the same content gives %s", p, showList(orig2), got, want)
			return
		}
		c.Count("second-defrag-after-refill")
	}
	if sig != "" {
		if pinned {
			c19PinOnce.Do(c19LoadPins)
			if want, ok := c19Pins[p]; ok && want != c19Outcome(res, err) {
				c.Violatef("defrag:unpinned-result", desc, "pattern %q: result %s (%s) is neither correct nor the recorded known outcome %s", p, showList(res), c19Outcome(res, err), want)
				return
			} else if !ok {
				c.Violatef("defrag:unpinned-result", desc, "pattern %q: wrong result %s and no recorded known outcome", p, showList(res))
				return
			}
			c.Count("matches-pinned-known-outcome")
		}
		if sig == "defrag:truncation" {
			lim := limit
			if lim == 0 {
				lim = 50
			}
			kres, kerr := c19Known(orig, lim, fwd)
			if showList(kres) != showList(res) || kerr != (err != nil) {
				c.Violatef("defrag:deviates-from-known-arithmetic", desc, "pattern %q limit %d -> %s err=%s: neither correct nor what the known truncation arithmetic gives for this pattern (%s, error %v)", p, limit, showList(res), errText(err), showList(kres), kerr)
				return
			}
			c.Count("matches-known-arithmetic")
		}
		c.Violatef(sig, desc, "pattern %q limit %d -> %s err=%s (expected the %d non-nil elements in order, Len %d, no error)", p, limit, showList(res), errText(err), strings.Count(p, "x"), strings.Count(p, "x"))
		return
	}
	c.Count("correct")
}

// nested: pattern stacks inside Stacks and Condition expressions
type c19Node struct {
	Pat  string     `json:"pat"`
	Kind string     `json:"kind"`
	Kids []*c19Node `json:"kids,omitempty"` // aligned with the 'x' positions that hold containers
	Cond []bool     `json:"cond,omitempty"` // kid wrapped in a Condition?
	Opts string     `json:"opts,omitempty"`
	s    stackage.Stack
	orig []any
}

func c19GenNode(r *core.Rng, depth int, next func() any) *c19Node {
	L := r.Range(0, 7)
	b := make([]byte, L)
	for i := range b {
		if r.Chance(2, 5) {
			b[i] = '.'
		} else {
			b[i] = 'x'
		}
	}
	n := &c19Node{Pat: string(b), Kind: Kinds[r.Intn(5)]}
	n.s = NewStack(n.Kind, 0)
	if depth < 3 && r.Chance(1, 6) {
		// a nested stack that carries an error from some earlier, unrelated call: that is its own affair
		defer func() { n.s.SetErr(errPolicyRejects) }()
		n.Opts += "stale-err "
	}
	if r.Chance(1, 3) {
		n.s.SetForwardIndices(true)
		n.Opts += "fwd "
	}
	if r.Chance(1, 3) {
		n.s.SetNegativeIndices(true)
		n.Opts += "neg"
	}
	for i := 0; i < L; i++ {
		if b[i] == '.' {
			n.s.Push(nil)
			n.orig = append(n.orig, nil)
			continue
		}
		if depth > 0 && r.Chance(1, 3) {
			kid := c19GenNode(r, depth-1, next)
			isCond := r.Chance(1, 3)
			n.Kids = append(n.Kids, kid)
			n.Cond = append(n.Cond, isCond)
			var v any = kid.s
			if isCond {
				switch r.Intn(4) {
				case 0:
					v = stackage.Cond("k", stackage.Eq, AStack(kid.s)) // the expression in alias form
				case 1:
					ks := kid.s
					v = stackage.Cond("k", stackage.Eq, &ks) // ... held through a pointer
				case 2:
					v = ACond(stackage.Cond("k", stackage.Eq, kid.s))
				default:
					v = stackage.Cond("k", stackage.Eq, kid.s)
				}
			} else if r.Chance(1, 4) {
				v = AStack(kid.s)
			}
			switch r.Intn(4) {
			case 0: // enters through Insert at the end
				n.s.Insert(v, n.s.Len())
			case 1: // enters through Replace of a placeholder
				n.s.Push("placeholder")
				n.s.Replace(v, n.s.Len()-1)
			default:
				n.s.Push(v)
			}
			n.orig = append(n.orig, v)
			continue
		}
		v := next()
		n.s.Push(v)
		n.orig = append(n.orig, v)
	}
	return n
}

// c19Judge checks one node after the root's Defrag; returns whether it (and everything below) is correct.
func c19Judge(c *core.Ctx, n *c19Node, desc any, path string, sigs map[string]bool) {
	res := contentOf(n.s)
	sig := c19Classify(n.orig, res)
	if sig == "" && strings.Contains(n.Pat, ".") && n.s.Err() != nil {
		sig = "defrag:spurious-err"
	}
	if sig == "defrag:truncation" {
		// the nested call runs with the default scan limit; the exact known outcome is computable here as well
		fwdOpt := false
		if d, ok := stackage.VerifDump(n.s); ok {
			fwdOpt = d.Opt&32 != 0 // forward-index option bit
		}
		kres, kerr := c19Known(n.orig, 50, fwdOpt)
		if showList(kres) != showList(res) || kerr != (n.s.Err() != nil) {
			c.Violatef("defrag:deviates-from-known-arithmetic", desc, "nested stack at %s, pattern %q -> %s err=%s: neither correct nor what the known truncation arithmetic gives (%s, error %v)", path, n.Pat, showList(res), errText(n.s.Err()), showList(kres), kerr)
			return
		}
		c.Count("matches-known-arithmetic")
	}
	if sig != "" {
		sigs[sig+"@"+path] = true
		c.Violatef(sig, desc, "nested stack at %s, pattern %q -> %s err=%s", path, n.Pat, showList(res), errText(n.s.Err()))
	}
	// kids that survived in the parent must themselves be judged; kids that were cut off are unreachable
	ki := 0
	for i, v := range n.orig {
		if v == nil {
			continue
		}
		_, isStack := AsStack(v)
		_, isCond := AsCond(v)
		if !isStack && !isCond {
			continue
		}
		kid := n.Kids[ki]
		ki++
		survived := false
		for _, rv := range res {
			if rv != nil && SameValue(rv, v) {
				survived = true
			}
		}
		if survived {
			c19Judge(c, kid, desc, fmt.Sprintf("%s/%d", path, i), sigs)
		}
	}
}

// c19Tower: "nested Stacks - direct elements or a Condition's expression - are compacted the same way", however far down.
// Every level holds a label, a run of nils and the next level (alternately as an element and as the expression of a
// Condition); each level is judged by the same step-by-step model as a flat stack.
func c19Tower(c *core.Ctx) {
	r := c.Rng
	depth := []int{40, 255, 257, 300, 1000}[r.Intn(5)]
	if r.Chance(1, 3) {
		depth = r.Range(4094, 4200)
	}
	if c.Tier == "thorough" && r.Chance(1, 4) {
		depth = r.Range(9990, 10050)
	}
	// (five interior nils before a non-nil last element is a shape the known truncation arithmetic happens to get right:
	// with any other count the top level already loses its tail - the known finding - and nothing below is visited)
	nils := 5
	type level struct {
		s    stackage.Stack
		orig []any
	}
	levels := make([]level, depth)
	var below any = "bottom"
	for k := depth - 1; k >= 0; k-- {
		s := stackage.Basic()
		if k%3 == 0 {
			s = stackage.And()
		}
		var orig []any
		label := fmt.Sprintf("level-%d", k)
		s.Push(label)
		orig = append(orig, label)
		for i := 0; i < nils; i++ {
			s.Push(nil)
			orig = append(orig, nil)
		}
		held := below
		if k%2 == 1 && k != depth-1 {
			held = stackage.Cond("down", stackage.Eq, below)
		}
		s.Push(held)
		orig = append(orig, held)
		levels[k] = level{s, orig}
		below = s
	}
	desc := map[string]any{"depth": depth, "nils_per_level": nils}
	if p, msg, site := Guard(func() { levels[0].s.Defrag() }); p {
		c.Violatef("panic:"+site+":tower", desc, "Defrag panicked on a tower of %d levels: %s", depth, msg)
		return
	}
	for k, lv := range levels {
		want := []any{lv.orig[0], lv.orig[len(lv.orig)-1]}
		if got := contentOf(lv.s); !sameContent(got, want) {
			c.Violatef("tower:level-not-compacted", desc, "level %d of %d (reached through %d nested Stacks / Condition expressions) holds %d elements after Defrag of the top, expected %d: %s", k, depth, k, len(got), len(want), showList(got))
			return
		}
	}
	c.Count("towers")
	c.NontrivialStr(fmt.Sprintf("tower|%d|%d", depth>>6, nils))
}

func c19Run(c *core.Ctx, idx int) {
	maxLen, exh, long, _ := c19Tier(c.Tier)
	_ = maxLen
	r := c.Rng
	if idx >= exh && idx%2000 == 1999 {
		c19Tower(c)
		return
	}
	switch {
	case idx < exh:
		opt := idx % 4
		lim := c19Limits[(idx/4)%3]
		p := c19Pattern(idx / 12)
		pinned := opt == 0 && lim == 0 && len(p) <= 10
		c19Flat(c, p, lim, opt&1 != 0, opt&2 != 0, Kinds[r.Intn(5)], pinned)
		c.Count("patterns.exhaustive")
		if strings.Contains(p, ".") && strings.Contains(p, "x") {
			c.NontrivialStr(fmt.Sprintf("%s|%d|%d", p, lim, opt))
		}
		if c.WantSample() && idx%5003 == 17 {
			c.Sample(map[string]any{"pattern": p, "limit": lim, "neg": opt&1 != 0, "fwd": opt&2 != 0})
		}
	case idx < exh+long:
		L := r.Range(13, 80)
		b := make([]byte, L)
		for i := range b {
			if r.Chance(1, 3) {
				b[i] = '.'
			} else {
				b[i] = 'x'
			}
		}
		if idx%500 == 250 {
			// stacks of another magnitude with a handful of short gaps (judged by the same step-by-step model)
			L = []int{255, 257, 4095, 4097, 5000, 65535, 65537, 65540, 70000}[r.Intn(9)]
			if c.Tier == "thorough" && r.Chance(1, 3) {
				L = []int{140000, 1<<20 + 3}[r.Intn(2)]
			}
			b = bytes.Repeat([]byte{'x'}, L)
			for g, gaps := 0, r.Range(1, 6); g < gaps; g++ {
				at := r.Intn(L - 8)
				if r.Chance(1, 2) {
					at = L - 8 - r.Intn(40) // near the far end
				}
				for k, run := 0, r.Range(1, 5); k < run; k++ {
					b[at+k] = '.'
				}
			}
			c.Count("patterns.another-magnitude")
		}
		lim := c19Limits[r.Intn(3)]
		if r.Chance(1, 8) {
			lim = []int{math.MaxInt, math.MaxInt - 3, math.MaxInt / 2, 1 << 40}[r.Intn(4)] // "no limit to speak of"
			c.Count("patterns.huge-limit")
		} else if r.Chance(1, 4) {
			// one long nil run just below an explicit limit above the default of 50
			lim = []int{51, 60, 64, 100, 200}[r.Intn(5)]
			run := r.Range(45, lim-1)
			pre, post := r.Range(1, 4), r.Range(1, 6)
			b = b[:0]
			for i := 0; i < pre; i++ {
				b = append(b, 'x')
			}
			for i := 0; i < run; i++ {
				b = append(b, '.')
			}
			for i := 0; i < post; i++ {
				b = append(b, "x.x"[r.Intn(3)])
			}
			b = append(b, 'x')
			c.Count("patterns.long-run-below-large-limit")
		}
		c19Flat(c, string(b), lim, r.Bool(), r.Bool(), Kinds[r.Intn(5)], false)
		c.Count("patterns.random-long")
		c.NontrivialStr(fmt.Sprintf("%s|%d", b, lim))
	default:
		next := uniqueVals()
		root := c19GenNode(r, 3, next)
		if p, msg, site := Guard(func() { root.s.Defrag() }); p {
			c.Violatef("panic:"+site, root, "Defrag panicked on a nested tree: %s", msg)
			return
		}
		sigs := map[string]bool{}
		if !strings.Contains(root.Pat, ".") && root.s.Err() != nil {
			c.Violatef("defrag:spurious-err", root, "a gap-free root stack reports %v after Defrag (an error carried by a nested stack is the nested stack's)", root.s.Err())
			return
		}
		c19Judge(c, root, root, "root", sigs)
		c.Count("trees.nested")
		if len(root.Kids) > 0 {
			c.NontrivialStr(core.JSON(root))
			c.Count("trees.nested.with-containers")
		}
		if len(sigs) == 0 {
			c.Count("trees.nested.correct")
		}
		if c.WantSample() && idx%1009 == 5 {
			c.Sample(root)
		}
	}
}

// C19Table prints the observed outcome of every wrong result for all patterns of length <= 10 under default options.
func C19Table() {
	fmt.Println("# pattern ('x' element, '.' nil)  observed outcome: kept+nils/eErrFlag — generated once from the pinned tree by `vcheck aux c19table`")
	for n := 0; n < (1<<11)-1; n++ {
		p := c19Pattern(n)
		next := uniqueVals()
		s, orig := buildPattern("LIST", p, next)
		s.Defrag()
		res := contentOf(s)
		sig := c19Classify(orig, res)
		if sig == "" && s.Err() != nil {
			sig = "defrag:spurious-err"
		}
		if sig != "" {
			fmt.Printf("%s %s\n", p, c19Outcome(res, s.Err()))
		}
	}
}

func init() {
	core.Register(&core.Monitor{
		ID: "C19",
		Cases: func(tier string) int {
			_, e, l, n := c19Tier(tier)
			return e + l + n
		},
		Run: c19Run,
		Rule: "all nil/non-nil patterns of length 0..10 (quick) / 0..12 (thorough) x scan limit {default 50, 3, 60} x 4 negative/forward index option combinations; " +
			"random patterns of length 13..80 and patterns with one nil run of 45..limit-1 under explicit limits {51,60,64,100,200}; random trees (depth <= 3) of pattern stacks nested as Stack elements, Stack aliases and Condition expressions. " +
			"Oracle: content == former non-nil elements in order, Len == their count, Err()==nil, configuration unchanged, gap-free stacks untouched (recursive VerifDump diff); only patterns whose nil runs are shorter than the limit are judged. " +
			"Every wrong result is classified by shape (truncation = expected[:m]++nil*, untouched, corrupt, spurious-err); for patterns of length <= 10 under default options the known wrong outcome is pinned per pattern in C19_pinned.txt, and a truncation-shaped result of any length must equal, element for element, what a step-by-step model of the pinned tree's arithmetic (c19Known) yields for that pattern - only then is it attributed to the known finding. " +
			"A quarter of the unpinned cases carry a left-over error into the call; every third correct case is shrunk, refilled and defragmented again and compared with a fresh stack. " +
			"non-trivial = pattern with at least one nil and one element (flat) / tree with at least one nested container; distinct = (pattern, limit, options) or tree description.",
		Assumptions: []string{"element values are unique, so every surviving element identifies its origin"},
		Floors: func(string) map[string]int64 {
			return map[string]int64{"judged": 10000, "towers": 8, "patterns.another-magnitude": 15, "cases.with-bystander-goroutines": 1200, "trees.nested.with-containers": 500, "patterns.random-long": 1000, "patterns.long-run-below-large-limit": 200}
		},
	})
	RegisterAux("c19table", C19Table)
}
