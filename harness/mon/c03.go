package mon

import (
	"bytes"
	"fmt"
	"log"
	"runtime"
	"strings"
	"sync"
	"sync/atomic"
	"time"

	stackage "github.com/JesseCoretta/go-stackage"
	"verifharness/core"
)

// C03 — a Stack created with capacity k never holds more than k elements.

const c03Alphabet = 13

func c03Symbol(sym int, next func() any) LOp {
	push := func(n int) LOp {
		v := make([]any, n)
		for i := range v {
			v[i] = next()
		}
		return LOp{K: "Push", Vals: v}
	}
	switch sym {
	case 0:
		return push(1)
	case 1:
		return push(2)
	case 2:
		return push(3)
	case 3:
		return LOp{K: "Insert", Vals: []any{next()}, I: 0}
	case 4:
		return LOp{K: "Insert", Vals: []any{next()}, I: IdxMid}
	case 5:
		return LOp{K: "Insert", Vals: []any{next()}, I: IdxEnd}
	case 6:
		return LOp{K: "Pop"}
	case 7:
		return LOp{K: "Remove", I: 0}
	case 8:
		return LOp{K: "Reset"}
	case 9:
		return LOp{K: "TransferInto", I: 1}
	case 10:
		return LOp{K: "TransferInto", I: 2}
	case 11:
		return LOp{K: "TransferInto", I: 3}
	}
	return LOp{K: "MarshalInto", I: 2}
}

func c03ExhCount(maxLen int) int {
	n, p := 0, 1
	for l := 0; l <= maxLen; l++ {
		n += p
		p *= c03Alphabet
	}
	return n
}

func c03Decode(h, maxLen int) []int {
	p := 1
	for l := 0; l <= maxLen; l++ {
		if h < p {
			out := make([]int, l)
			for i := l - 1; i >= 0; i-- {
				out[i] = h % c03Alphabet
				h /= c03Alphabet
			}
			return out
		}
		h -= p
		p *= c03Alphabet
	}
	return nil
}

func c03Tier(tier string) (maxLen, exh, random int) {
	if tier == "thorough" {
		return 4, c03ExhCount(4) * 3, 5000000
	}
	return 3, c03ExhCount(3) * 3, 200000
}

// c03Growth applies the two extra growth operations (Transfer-into, Marshal-into).
func c03Growth(s stackage.Stack, m *ListModel, o LOp, next func() any, nonest bool) (aspect, detail, shown string) {
	before := m.Len()
	switch o.K {
	case "TransferInto":
		src := stackage.Basic()
		vals := make([]any, o.I)
		for i := range vals {
			vals[i] = next()
			src.Push(vals[i])
		}
		shown = fmt.Sprintf("Basic(%d values).Transfer(dst)", o.I)
		src.Transfer(s)
		// C03 only demands: never above capacity, and what arrived is a prefix of the source in order
		// appended after the previous content (all-or-nothing is C15's business).
		got := s.Len() - before
		if got < 0 || got > o.I {
			return "Len", fmt.Sprintf("Len went from %d to %d after a transfer of %d", before, s.Len(), o.I), shown
		}
		for i := 0; i < got; i++ {
			if m.Full() {
				return "Len", fmt.Sprintf("transfer stored %d values although only %d slots were free (cap %d)", got, m.Cap-before, m.Cap), shown
			}
			m.Items = append(m.Items, vals[i])
		}
	case "MarshalInto":
		// the values either follow a kind label, or come bare (a first value that is no label: everything is content
		// of a BASIC stack). Either way the decoded stack was created without a capacity.
		in := []any{"AND"}
		wantKind, wantLen := "AND", o.I
		if (before+o.I)%3 == 0 {
			in = []any{"alpha"}
			wantKind, wantLen = "BASIC", o.I+1
		}
		for i := 0; i < o.I; i++ {
			in = append(in, next())
		}
		shown = fmt.Sprintf("Marshal(%q + %d values)", in[0], o.I)
		full := m.Full() || nonest // (under no-nesting the decoded Stack is skipped like any other Stack)
		err := s.Marshal(in...)
		if err != nil {
			return "return", "Marshal returned " + err.Error(), shown
		}
		want := before + 1
		if full {
			want = before
		}
		if s.Len() != want {
			return "Len", fmt.Sprintf("Len %d after Marshal-into, expected %d (cap %d)", s.Len(), want, m.Cap), shown
		}
		if !full {
			v, ok := s.Index(before)
			ds, isStack := v.(stackage.Stack)
			if !ok || !isStack || ds.Kind() != wantKind || ds.Len() != wantLen {
				return "content", fmt.Sprintf("Marshal-into stored %s, expected %s stack of %d", Show(v), wantKind, wantLen), shown
			}
			if ds.Cap() != -1 || ds.Avail() != -1 || ds.IsFull() {
				return "decoded-cap", fmt.Sprintf("the stack decoded by Marshal (nobody gave it a capacity) reports Cap()=%d Avail()=%d IsFull()=%v", ds.Cap(), ds.Avail(), ds.IsFull()), shown
			}
			if ds.Push(next()); ds.Len() != wantLen+1 {
				return "decoded-cap", fmt.Sprintf("the stack decoded by Marshal (nobody gave it a capacity) refused a Push at Len %d", wantLen), shown
			}
			m.Items = append(m.Items, v)
		}
	}
	return "", "", shown
}

func c03Conc(tier string) int {
	if tier == "thorough" {
		return 150000
	}
	return 6000
}

var c03Yield atomic.Uint64

// c03Concurrent: several goroutines grow one mutex-enabled capacity stack at once (the library promises atomic
// operations once SetMutex has been called, so "no sequence of calls" includes every interleaving of whole calls).
// Scheduling points are widened through the lock-point hook and inside a permissive push policy.
// c03TwoPrivate: two goroutines, each working on a stack of ITS OWN (front / middle Inserts and Removes around the limit).
// Nothing is shared, so whatever one does can mean nothing to the other's capacity or content.
func c03TwoPrivate(c *core.Ctx) {
	r := c.Rng
	type side struct {
		s       stackage.Stack
		k, n    int
		bad     string
		offered map[any]bool
	}
	mk := func(k, fill int, tag string) *side {
		sd := &side{s: NewStack(Kinds[r.Intn(5)], k), k: k, offered: map[any]bool{}}
		for i := 0; i < fill; i++ {
			v := fmt.Sprintf("%s%d", tag, i)
			sd.s.Push(v)
			sd.offered[v] = true
		}
		return sd
	}
	a, b := mk(0, r.Range(20, 80), "a"), mk(r.Range(2, 4), 0, "b")
	for i := 0; i < b.k-1; i++ {
		v := fmt.Sprintf("b%d", i)
		b.s.Push(v)
		b.offered[v] = true
	}
	rounds := r.Range(200, 800)
	var wg sync.WaitGroup
	work := func(sd *side, tag string) {
		defer wg.Done()
		for i := 0; i < rounds && sd.bad == ""; i++ {
			v := fmt.Sprintf("%s-ins%d", tag, i)
			sd.offered[v] = true
			if p, msg, _ := Guard(func() {
				sd.s.Insert(v, i%2) // head or second position
				if n := sd.s.Len(); sd.k > 0 && (n > sd.k || sd.s.Avail() != sd.k-n || sd.s.IsFull() != (n == sd.k)) {
					sd.bad = fmt.Sprintf("after Insert: Len=%d Cap=%d Avail=%d IsFull=%v on capacity %d", n, sd.s.Cap(), sd.s.Avail(), sd.s.IsFull(), sd.k)
				}
				sd.s.Remove(0)
			}); p {
				sd.bad = "panic: " + msg
			}
		}
	}
	wg.Add(2)
	go work(a, "A")
	go work(b, "B")
	wg.Wait()
	c.Count("concurrent.two-private-stacks")
	for name, sd := range map[string]*side{"uncapped": a, "capped": b} {
		if sd.bad != "" {
			c.Violatef("two-private-stacks:capacity", map[string]any{"side": name}, "a goroutine working on its own %s stack saw %s (another goroutine was working on a different stack)", name, sd.bad)
			return
		}
		for i := 0; i < sd.s.Len(); i++ {
			if v, _ := sd.s.Index(i); !sd.offered[v] {
				c.Violatef("two-private-stacks:content", map[string]any{"side": name}, "the %s stack holds %s, which was never offered to it", name, Show(v))
				return
			}
		}
	}
}

func c03Concurrent(c *core.Ctx) {
	if c.Idx%5 == 3 {
		c03TwoPrivate(c)
		return
	}
	r := c.Rng
	next := uniqueVals()
	k := r.Range(1, 4)
	kind := Kinds[r.Intn(len(Kinds))]
	s := NewStack(kind, k)
	offered := map[any]bool{}
	for i, n := 0, r.Intn(k); i < n; i++ {
		v := next()
		offered[v] = true
		s.Push(v)
	}
	policy := r.Chance(1, 2)
	if policy {
		spins := r.Intn(3)
		s.SetPushPolicy(func(x ...any) error {
			for i := 0; i <= spins; i++ {
				runtime.Gosched()
			}
			return nil
		})
		c.Count("concurrent.with-push-policy")
	}
	s.SetMutex()
	every := uint64(r.Range(1, 3))
	stackage.VerifSetHook(func(point string, id uintptr) {
		if (point == "lock.want" || point == "lock.released") && c03Yield.Add(1)%every == 0 {
			runtime.Gosched()
		}
	})
	defer stackage.VerifSetHook(nil)
	nw := r.Range(2, 5)
	type job struct {
		kind string
		vals []any
		at   int
		src  stackage.Stack
	}
	jobs := make([][]job, nw)
	var log []string
	for w := range jobs {
		for i, n := 0, r.Range(1, 3); i < n; i++ {
			var j job
			switch r.Intn(6) {
			case 0, 1, 2:
				j.kind = "Push"
				for q, nq := 0, r.Range(1, 3); q < nq; q++ {
					j.vals = append(j.vals, next())
				}
			case 3:
				j.kind, j.vals, j.at = "Insert", []any{next()}, r.Range(0, k)
			case 4:
				j.kind = "TransferInto"
				j.src = NewStack("LIST", 0)
				for q, nq := 0, r.Range(1, 2); q < nq; q++ {
					v := next()
					j.vals = append(j.vals, v)
					j.src.Push(v)
				}
			default:
				j.kind = "Pop"
			}
			for _, v := range j.vals {
				offered[v] = true
			}
			jobs[w] = append(jobs[w], j)
			log = append(log, fmt.Sprintf("w%d:%s%v", w, j.kind, j.vals))
		}
	}
	desc := map[string]any{"kind": kind, "cap": k, "policy": policy, "workers": nw, "jobs": log}
	var wg sync.WaitGroup
	var over atomic.Int64
	var panics atomic.Value
	stop := make(chan struct{})
	start := make(chan struct{})
	for w := range jobs {
		wg.Add(1)
		go func(js []job) {
			defer wg.Done()
			<-start
			for _, j := range js {
				if p, msg, site := Guard(func() {
					switch j.kind {
					case "Push":
						s.Push(j.vals...)
					case "Insert":
						s.Insert(j.vals[0], j.at)
					case "TransferInto":
						j.src.Transfer(s)
					default:
						s.Pop()
					}
				}); p {
					panics.Store(j.kind + " panicked (" + site + "): " + msg)
				}
				if n := s.Len(); n > k {
					over.Store(int64(n))
				}
			}
		}(jobs[w])
	}
	// an observer that never writes: the limit must hold at every moment, not only at the end
	obs := make(chan struct{})
	go func() {
		defer close(obs)
		for {
			select {
			case <-stop:
				return
			default:
			}
			if n := s.Len(); n > k {
				over.Store(int64(n))
			}
			runtime.Gosched()
		}
	}()
	close(start)
	done := make(chan struct{})
	go func() { wg.Wait(); close(done) }()
	select {
	case <-done:
	case <-time.After(60 * time.Second):
		close(stop)
		c.Inconclusive("C03 concurrent case did not finish within the 60 s watchdog (possible deadlock; judged by C10, not here)")
		return
	}
	close(stop)
	<-obs
	c.Count("concurrent.histories")
	c.Add("concurrent.ops", int64(len(log)))
	if v := panics.Load(); v != nil {
		c.Violatef("concurrent:panic", desc, "%v", v)
		return
	}
	if n := over.Load(); n != 0 {
		c.Violatef("concurrent:len-exceeds-cap", desc, "Len()=%d observed on a capacity-%d stack while %d goroutines were growing it", n, k, nw)
		return
	}
	n := s.Len()
	if n > k || s.Cap() != k || s.Avail() != k-n || s.IsFull() != (n == k) {
		c.Violatef("concurrent:capacity-arithmetic", desc, "after the run: Len=%d Cap=%d Avail=%d IsFull=%v on capacity %d", n, s.Cap(), s.Avail(), s.IsFull(), k)
		return
	}
	seen := map[any]bool{}
	for i := 0; i < n; i++ {
		v, _ := s.Index(i)
		if !offered[v] || seen[v] {
			c.Violatef("concurrent:content", desc, "after the run position %d holds %s (never offered, or stored twice)", i, Show(v))
			return
		}
		seen[v] = true
	}
	if snap, ok := stackage.VerifDump(s); !ok || len(snap.Slots) != n {
		c.Violatef("concurrent:raw-length", desc, "raw slots %d, Len %d", len(snap.Slots), n)
		return
	}
	if n == k {
		c.Count("concurrent.ended-full")
	}
	c.NontrivialStr(fmt.Sprint(kind, k, policy, log))
}

func c03Run(c *core.Ctx, idx int) {
	maxLen, exh, rnd := c03Tier(c.Tier)
	if idx >= exh+rnd {
		c03Concurrent(c)
		return
	}
	r := c.Rng
	next := uniqueVals()
	exhaustive := idx < exh
	cfg := ListCfg{Kind: Kinds[r.Intn(len(Kinds))], Fifo: r.Chance(1, 3), Neg: r.Chance(1, 4), Fwd: r.Chance(1, 4)}
	var syms []int
	nocapArg := 0 // 0 none, 1 explicit 0, 2 negative
	if exhaustive {
		cfg.Cap = 1 + idx%3
		syms = c03Decode(idx/3, maxLen)
	} else if r.Chance(1, 12) {
		cfg.Cap = 0
		nocapArg = r.Intn(3)
	} else {
		cfg.Cap = r.Range(1, 6)
	}
	var s stackage.Stack
	var m *ListModel
	switch nocapArg {
	case 1:
		s, m = NewStackArgs(cfg.Kind, 0), &ListModel{}
	case 2:
		s, m = NewStackArgs(cfg.Kind, -3), &ListModel{}
	default:
		s, m = cfg.Build()
		nocapArg = 0
	}
	if nocapArg != 0 {
		if cfg.Fifo {
			s.SetFIFO(true)
			m.Fifo = true
		}
		c.Count("nocap.explicit-arg")
	}
	nonest := false
	insidePolicy := ""
	if r.Chance(1, 4) {
		// a permissive push policy must not change anything about capacity
		// ("at every moment": the closure itself looks at the stack while the batch is being worked through; a third of
		// these closures panic once - the caller recovers - after which the limit must hold as before)
		kcap := m.Cap
		panicOnce := r.Chance(1, 3)
		s.SetPushPolicy(func(x ...any) error {
			if n := s.Len(); kcap > 0 && (n > kcap || s.Avail() != kcap-n || s.IsFull() != (n == kcap)) && insidePolicy == "" {
				insidePolicy = fmt.Sprintf("seen from inside the push policy: Len=%d Cap=%d Avail=%d IsFull=%v on capacity %d", n, s.Cap(), s.Avail(), s.IsFull(), kcap)
			}
			if panicOnce && len(x) == 1 && x[0] == "make the policy panic" {
				panic(userPanicText)
			}
			return nil
		})
		if panicOnce {
			Guard(func() { s.Push("a-value", "make the policy panic", "never reached") })
			// whether the value accepted before the panic is kept is not specified: follow the code, then judge the limit
			if s.Len() == m.Len()+1 && (kcap == 0 || m.Len() < kcap) {
				if v, _ := s.Index(s.Len() - 1); v == "a-value" {
					m.Items = append(m.Items, "a-value")
				}
			}
			c.Count("policy-panicked-mid-batch")
		}
		c.Count("with-permissive-push-policy")
	} else if r.Chance(1, 4) {
		// no-nesting concerns Stack values only (the Stack decoded by Marshal-into is then skipped)
		s.SetNoNesting(true)
		nonest = true
		c.Count("with-no-nesting")
	}
	if r.Chance(1, 5) {
		// every log level on, into a live (non-discarding) logger: observability must not change behaviour
		s.SetLogger(log.New(&bytes.Buffer{}, "", 0)).SetLogLevel(stackage.AllLogLevels)
		c.Count("with-active-logging")
	}
	var log []string
	fulls, shrunkSinceFull, sawtooth, partial := 0, false, 0, false
	if insidePolicy != "" {
		c.Violate("inside-policy:capacity", insidePolicy+" on ["+cfg.String()+"]", map[string]any{"cfg": cfg})
		return
	}
	if a, d := ObserveList(s, m); a != "" {
		c.Violate("after-policy-panic:"+a, "after a push policy panicked in mid-batch (recovered by the caller) on ["+cfg.String()+"]: "+d, map[string]any{"cfg": cfg})
		return
	}
	fail := func(k, aspect, detail string) {
		c.Violate(k+":"+aspect, fmt.Sprintf("after %s on [%s]: %s", log[len(log)-1], cfg, detail), map[string]any{"cfg": cfg, "ctor_arg": nocapArg, "ops": log})
	}
	step := func(op LOp) bool {
		op = op.Resolve(m.Len())
		before := m.Len()
		c.Count("op." + op.K)
		if op.K == "TransferInto" || op.K == "MarshalInto" {
			log = append(log, op.K)
			a, d, shown := c03Growth(s, m, op, next, nonest)
			log[len(log)-1] = shown
			if a != "" {
				fail(op.K, a, d)
				return false
			}
		} else {
			log = append(log, op.String())
			defer func() {
				if insidePolicy != "" && len(c.Viol) == 0 {
					c.Violate("inside-policy:capacity", insidePolicy+" during "+op.String()+" on ["+cfg.String()+"]", map[string]any{"cfg": cfg, "ops": log})
				}
			}()
			if op.K == "Push" && m.Cap > 0 && before < m.Cap && before+len(op.Vals) > m.Cap {
				partial = true
				c.Count("partly-fitting-batch")
			}
			if op.K == "Push" && len(op.Vals) > 0 && r.Chance(1, 6) {
				// the same value several times over in one batch: each occurrence is one value, judged for room on its own
				dup := op.Vals[0]
				if r.Bool() {
					dup = "dup"
				}
				n := r.Range(2, 5)
				op.Vals = nil
				for i := 0; i < n; i++ {
					op.Vals = append(op.Vals, dup)
				}
				log[len(log)-1] = op.String()
				c.Count("push-batches-of-one-repeated-value")
			}
			if nonest && op.K == "Push" && r.Chance(1, 2) {
				// under no-nesting a Stack in the batch is skipped; it does not use up room, and what follows it is judged
				// against the room that really remains
				real := append([]any{}, op.Vals...)
				at := r.Intn(len(real) + 1)
				real = append(real[:at], append([]any{stackage.And().Push("refused")}, real[at:]...)...)
				if r.Bool() {
					real = append([]any{stackage.Or()}, real...)
				}
				s.Push(real...)
				m.Push(op.Vals...)
				log[len(log)-1] += " (+refused Stacks in the batch)"
				c.Count("push-batches-with-refused-stacks")
			} else if a, d := ApplyLOp(s, m, op); a != "" {
				fail(op.K, a, d)
				return false
			}
		}
		if r.Chance(1, 10) {
			// a read-only spell: the accessors answer as before (nothing is offered while it lasts)
			switch r.Intn(3) {
			case 0:
				s.SetReadOnly(true)
			case 1:
				s.ReadOnly(true)
			default:
				s.ReadOnly()
			}
			a, d := ObserveList(s, m)
			s.SetReadOnly(false)
			if a != "" {
				fail(op.K, "while-read-only:"+a, d)
				return false
			}
			c.Count("observed-while-read-only")
		}
		if a, d := ObserveList(s, m); a != "" {
			fail(op.K, a, d)
			return false
		}
		// raw slice length against the raw capacity
		if sn, ok := stackage.VerifDump(s); ok && sn.Cap > 0 && sn.Len > sn.Cap {
			fail(op.K, "raw", fmt.Sprintf("raw slice length %d exceeds raw capacity %d", sn.Len, sn.Cap))
			return false
		}
		if m.Len() < before {
			shrunkSinceFull = true
		}
		if m.Full() && before < m.Len() {
			fulls++
			if shrunkSinceFull && fulls >= 2 {
				sawtooth++
			}
			shrunkSinceFull = false
			c.Count("reached-full")
		}
		return true
	}
	ok := true
	if exhaustive {
		for _, sym := range syms {
			if !ok {
				break
			}
			ok = step(c03Symbol(sym, next))
		}
		c.Count("histories.exhaustive")
	} else {
		// sawtooth: grow to (beyond) the limit, shrink by a random amount, grow again ...
		growing := true
		for i := 0; i < 36 && ok; i++ {
			if growing && m.Cap > 0 && m.Len() >= m.Cap && r.Chance(2, 3) {
				growing = false
			}
			if !growing && (m.Len() == 0 || r.Chance(1, 3)) {
				growing = true
			}
			var op LOp
			if growing {
				switch r.Intn(7) {
				case 0, 1, 2:
					op = c03Symbol(r.Intn(3), next)
					if r.Chance(1, 8) {
						op.Vals[r.Intn(len(op.Vals))] = nil
					}
				case 3:
					op = LOp{K: "Insert", Vals: []any{next()}, I: r.Range(-1, m.Len()+1)}
				case 4:
					op = LOp{K: "TransferInto", I: r.Range(1, 4)}
				case 5:
					op = LOp{K: "MarshalInto", I: r.Range(0, 3)}
				default:
					op = c03Symbol(r.Intn(3), next)
				}
			} else {
				switch r.Intn(6) {
				case 0, 1, 2:
					op = LOp{K: "Pop"}
				case 3, 4:
					op = LOp{K: "Remove", I: r.Range(0, m.Len())}
				default:
					op = LOp{K: "Reset"}
				}
			}
			ok = step(op)
		}
		c.Count("histories.random")
	}
	c.Count(fmt.Sprintf("cap.%d", cfg.Cap))
	if sawtooth > 0 && partial {
		c.NontrivialStr(cfg.String() + "|" + strings.Join(log, ";"))
		c.Count("nontrivial-histories")
	}
	if c.WantSample() && sawtooth > 0 && partial {
		c.Sample(map[string]any{"cfg": cfg.String(), "ops": log, "final": m.String()})
	}
	if c.Verbose {
		fmt.Printf("cfg: %s ctor_arg=%d\nops: %s\nfinal model: %s\n", cfg, nocapArg, strings.Join(log, "; "), m)
	}
}

func init() {
	core.Register(&core.Monitor{
		ID: "C03",
		Cases: func(tier string) int {
			_, e, r := c03Tier(tier)
			return e + r + c03Conc(tier)
		},
		Run: c03Run,
		Rule: "cases = all histories of length <= 3 (quick) / <= 4 (thorough) over {Push x1/x2/x3, Insert at 0/mid/end, Pop, Remove(0), Reset, Transfer-into x1/x2/x3, Marshal-into} for k in {1,2,3}, " +
			"plus seeded random 36-op sawtooth histories (grow past the limit with partly-fitting batches, Insert, Transfer-into, Marshal-into; shrink by Pop/Remove/Reset; grow again) for k in 1..6 and for stacks built with no / zero / negative capacity argument; a quarter of all cases runs under a permissive push policy (the policy-gated append path has its own capacity test); " +
			"after every op Len<=k, Cap()==k, Avail()==k-Len, IsFull()==(Len==k), raw slice length <= raw capacity and the content (earliest-offered values kept in order) are compared with the list model. " +
			"Concurrent phase (6 000 / 150 000 cases): 2-5 goroutines run 1-3 growth calls each (Push batches, Insert, Transfer-into, a few Pops) on one mutex-enabled stack of capacity 1..4, half of them through a permissive push policy that yields; the lock-point hook yields at lock.want / lock.released; workers and a read-only observer goroutine check Len()<=k all the time, and capacity arithmetic, raw length and content (only offered values, none twice) are checked at the end. " +
			"non-trivial = the history reaches the full state at least twice with a shrink in between AND contains a Push batch that only partly fits; distinct = hash of (configuration, op list).",
		Assumptions: []string{
			"for Transfer-into only 'never above capacity, stored values are an in-order prefix of the source' is demanded here; all-or-nothing is C15",
			"Marshal-into offers one decoded AND stack as one element",
		},
		Floors: func(tier string) map[string]int64 {
			return map[string]int64{"reached-full": 1000, "partly-fitting-batch": 500, "nontrivial-histories": 200,
				"op.TransferInto": 100, "op.MarshalInto": 100, "op.Insert": 100, "nocap.explicit-arg": 10, "with-permissive-push-policy": 1000,
				"concurrent.histories": 4000, "concurrent.with-push-policy": 1500, "concurrent.ended-full": 1500, "concurrent.two-private-stacks": 800}
		},
	})
}
