package mon

import (
	"fmt"
	"strings"

	stackage "github.com/JesseCoretta/go-stackage"
	"verifharness/core"
)

// C04 — Marshal(Unmarshal(S)) reconstructs S.

func c04Leaf(r *core.Rng) *LeafDesc {
	if r.Chance(1, 8) {
		return &LeafDesc{Tag: "str", S: []string{"AND", "or", "List", "CONDITION", "basic", "NOT"}[r.Intn(6)]} // label-like strings as ordinary values
	}
	if r.Chance(1, 10) {
		// "every other value passed through unchanged": values of unusual but legal types
		switch r.Intn(9) {
		case 0:
			return &LeafDesc{Tag: "complex128", F: float64(r.Intn(9)), I: int64(r.Intn(9))}
		case 1:
			return &LeafDesc{Tag: "complex64", F: 1.5, I: int64(r.Intn(9))}
		case 2:
			return &LeafDesc{Tag: "uintptr", I: int64(r.Intn(1 << 20))}
		case 3:
			return &LeafDesc{Tag: "named-int", I: int64(r.Intn(100))}
		case 4:
			return &LeafDesc{Tag: "named-bool", B: r.Bool()}
		case 5:
			return &LeafDesc{Tag: "named-float", F: float64(r.Intn(100)) / 4}
		case 6:
			return &LeafDesc{Tag: "rune", I: int64('a' + r.Intn(26))}
		case 7:
			return &LeafDesc{Tag: "ptr-pair"}
		}
		return &LeafDesc{Tag: "struct-empty"}
	}
	return SimpleLeaf(r)
}

var c04Gen = TreeGen{MaxDepth: 4, MaxWidth: 4, MinWidth: 0, NilLeaves: 10, Conds: 22, CondStackExpr: 40, CondCondExpr: 12, StackProb: 40, Leaf: c04Leaf}

func opsEqual(a, b stackage.Operator) bool {
	if a == nil || b == nil {
		return a == nil && b == nil
	}
	return a.String() == b.String() && a.Context() == b.Context()
}

// refShape computes the Unmarshal shape from the description. Condition-valued expressions are left as a
// marker (*TNode), because the statement allows them to be passed through or expanded.
func refShape(n *TNode) any {
	switch n.T {
	case "nil":
		return nil
	case "leaf":
		return n.Leaf.Build()
	case "stack":
		out := []any{n.Kind}
		for _, k := range n.Kids {
			out = append(out, refShape(k))
		}
		return out
	case "cond":
		var ex any
		if n.Expr != nil {
			if n.Expr.T == "cond" {
				ex = n.Expr // marker
			} else {
				ex = refShape(n.Expr)
			}
		}
		return []any{"CONDITION", n.Kw, n.Op.Build(), ex}
	}
	return nil
}

// shapeMatch compares an Unmarshal result with the reference shape; returns "" or the path of the first difference.
func shapeMatch(got, want any, path string) string {
	if marker, ok := want.(*TNode); ok {
		// Condition expression: passed through (a Condition value) or expanded
		if cd, isCond := AsCond(got); isCond {
			return condMatches(cd, marker, path)
		}
		return shapeMatch(got, []any{"CONDITION", marker.Kw, marker.Op.Build(), refExprShape(marker)}, path)
	}
	wrow, wIsRow := want.([]any)
	grow, gIsRow := got.([]any)
	if wIsRow != gIsRow {
		return fmt.Sprintf("%s: got %s, expected %s", path, showJunk(got, 0), showJunk(want, 0))
	}
	if !wIsRow {
		if wop, ok := want.(stackage.Operator); ok {
			gop, ok2 := got.(stackage.Operator)
			if !ok2 || !opsEqual(gop, wop) {
				return fmt.Sprintf("%s: operator %v, expected %v", path, got, want)
			}
			return ""
		}
		if !SameValue(got, want) {
			return fmt.Sprintf("%s: got %s, expected %s", path, Show(got), Show(want))
		}
		return ""
	}
	if len(grow) != len(wrow) {
		return fmt.Sprintf("%s: %d entries, expected %d (%s vs %s)", path, len(grow), len(wrow), showJunk(got, 0), showJunk(want, 0))
	}
	for i := range wrow {
		if i == 0 {
			gs, ok1 := grow[0].(string)
			ws, ok2 := wrow[0].(string)
			if !ok1 || !ok2 || !strings.EqualFold(gs, ws) {
				return fmt.Sprintf("%s[0]: label %s, expected %s", path, Show(grow[0]), Show(wrow[0]))
			}
			continue
		}
		if d := shapeMatch(grow[i], wrow[i], fmt.Sprintf("%s[%d]", path, i)); d != "" {
			return d
		}
	}
	return ""
}

func refExprShape(n *TNode) any {
	if n.Expr == nil {
		return nil
	}
	if n.Expr.T == "cond" {
		return n.Expr
	}
	return refShape(n.Expr)
}

func condMatches(cd stackage.Condition, n *TNode, path string) string {
	if cd.Keyword() != n.Kw {
		return fmt.Sprintf("%s: keyword %q, expected %q", path, cd.Keyword(), n.Kw)
	}
	if !opsEqual(cd.Operator(), n.Op.Build()) {
		return fmt.Sprintf("%s: operator %v, expected %v", path, cd.Operator(), n.Op.Build())
	}
	return valueMatches(cd.Expression(), n.Expr, path+".expr")
}

// valueMatches walks a live value against the description.
func valueMatches(v any, n *TNode, path string) string {
	switch n.T {
	case "nil":
		if v != nil {
			return fmt.Sprintf("%s: %s, expected nil", path, Show(v))
		}
	case "leaf":
		if !SameValue(v, n.Leaf.Build()) {
			return fmt.Sprintf("%s: %s, expected %s", path, Show(v), Show(n.Leaf.Build()))
		}
	case "stack":
		s, ok := AsStack(v)
		if !ok || !s.IsInit() {
			return fmt.Sprintf("%s: %s, expected a %s stack", path, Show(v), n.Kind)
		}
		// (Stack.Kind() reports the presentation symbol when one is set; the kind proper is read from the raw record)
		if d, _ := stackage.VerifDump(s); !strings.EqualFold(kindWord[d.Typ], n.Kind) {
			return fmt.Sprintf("%s: kind %s, expected %s", path, kindWord[d.Typ], n.Kind)
		}
		if s.Len() != len(n.Kids) {
			return fmt.Sprintf("%s: %d elements, expected %d", path, s.Len(), len(n.Kids))
		}
		for i, k := range n.Kids {
			e, _ := s.Index(i)
			if d := valueMatches(e, k, fmt.Sprintf("%s/%d", path, i)); d != "" {
				return d
			}
		}
	case "cond":
		cd, ok := AsCond(v)
		if !ok || !cd.IsInit() {
			return fmt.Sprintf("%s: %s, expected a Condition", path, Show(v))
		}
		return condMatches(cd, n, path)
	}
	return ""
}

// unmarshalEq compares two Unmarshal results (labels case-folded, operators by text/context).
func unmarshalEq(a, b any, path string) string {
	ra, okA := a.([]any)
	rb, okB := b.([]any)
	if okA != okB {
		return path + ": shape differs"
	}
	if !okA {
		if oa, ok := a.(stackage.Operator); ok {
			if ob, ok2 := b.(stackage.Operator); !ok2 || !opsEqual(oa, ob) {
				return path + ": operator differs"
			}
			return ""
		}
		if ca, ok := AsCond(a); ok {
			if cb, ok2 := AsCond(b); !ok2 || ca.IsEqual(cb) != nil {
				return path + ": condition differs"
			}
			return ""
		}
		if !SameValue(a, b) {
			return fmt.Sprintf("%s: %s vs %s", path, Show(a), Show(b))
		}
		return ""
	}
	if len(ra) != len(rb) {
		return fmt.Sprintf("%s: %d vs %d entries", path, len(ra), len(rb))
	}
	for i := range ra {
		if i == 0 {
			sa, ok1 := ra[0].(string)
			sb, ok2 := rb[0].(string)
			if ok1 && ok2 {
				if !strings.EqualFold(sa, sb) {
					return fmt.Sprintf("%s[0]: label %q vs %q", path, sa, sb)
				}
				continue
			}
		}
		if d := unmarshalEq(ra[i], rb[i], fmt.Sprintf("%s[%d]", path, i)); d != "" {
			return d
		}
	}
	return ""
}

// findPath returns the route (element indices; -1 = "into the Condition's expression") from root to target.
func findPath(root, target *TNode) []int {
	if root == target {
		return []int{}
	}
	for i, k := range root.Kids {
		if p := findPath(k, target); p != nil {
			return append([]int{i}, p...)
		}
	}
	if root.Expr != nil {
		if p := findPath(root.Expr, target); p != nil {
			return append([]int{-1}, p...)
		}
	}
	return nil
}

// liveAt follows a findPath route through the live structure.
func liveAt(root stackage.Stack, path []int) (stackage.Stack, bool) {
	var cur any = root
	for _, i := range path {
		if i == -1 {
			cd, ok := AsCond(cur)
			if !ok {
				return stackage.Stack{}, false
			}
			cur = cd.Expression()
			continue
		}
		s, ok := AsStack(cur)
		if !ok {
			return stackage.Stack{}, false
		}
		cur, _ = s.Index(i)
	}
	s, ok := AsStack(cur)
	return s, ok && s.IsInit()
}

func c04Tier(tier string) int {
	if tier == "thorough" {
		return 10000000
	}
	return 250000
}

// c04Tower: "nested Stacks ... expanded recursively" - however far down. A chain of stacks nested hundreds or thousands
// deep (alternately as an element and as a Condition's expression) is unmarshalled and the result walked level by level
// (iteratively) against what was built; the reconstruction is walked the same way and must consist of NEW instances.
func c04Tower(c *core.Ctx) {
	r := c.Rng
	depth := []int{255, 257, 300, 1000, 4095, 4097}[r.Intn(6)]
	if r.Chance(1, 4) {
		depth = r.Range(9995, 10060)
	}
	condEvery := []int{0, 2, 7}[r.Intn(3)]
	kinds := []string{"AND", "OR", "NOT", "LIST"}
	levels := make([]stackage.Stack, depth)
	var below any = "bottom"
	for k := depth - 1; k >= 0; k-- {
		s := NewStackArgs(kinds[k%4])
		s.Push(k)
		if condEvery > 0 && k%condEvery == 1 && k != depth-1 {
			s.Push(stackage.Cond("down", stackage.Eq, below))
		} else {
			s.Push(below)
		}
		levels[k] = s
		below = s
	}
	desc := map[string]any{"depth": depth, "condition_every": condEvery}
	var u []any
	var err error
	if p, msg, site := Guard(func() { u, err = levels[0].Unmarshal() }); p || err != nil {
		c.Violatef("tower:unmarshal", desc, "Unmarshal of a chain %d levels deep: panic=%v (%s %s) err=%v", depth, p, msg, site, err)
		return
	}
	// walk the serialised form
	cur := u
	for k := 0; k < depth; k++ {
		if len(cur) != 3 || !strings.EqualFold(fmt.Sprint(cur[0]), kinds[k%4]) || cur[1] != k {
			c.Violatef("tower:shape", desc, "level %d of the serialised form is %s, expected [%s %d <next level>]", k, Show(cur), kinds[k%4], k)
			return
		}
		if k == depth-1 {
			if cur[2] != "bottom" {
				c.Violatef("tower:shape", desc, "the innermost entry is %s", Show(cur[2]))
				return
			}
			break
		}
		next, ok := cur[2].([]any)
		if !ok {
			c.Violatef("tower:not-expanded", desc, "level %d of the serialised form holds a %T where the expansion of the next level belongs", k, cur[2])
			return
		}
		if condEvery > 0 && k%condEvery == 1 {
			// [CONDITION down = <expression>]
			if len(next) != 4 || !strings.EqualFold(fmt.Sprint(next[0]), "CONDITION") {
				c.Violatef("tower:shape", desc, "level %d: expected a CONDITION row, found %s", k, Show(next))
				return
			}
			inner, ok := next[3].([]any)
			if !ok {
				c.Violatef("tower:not-expanded", desc, "level %d: the Condition's expression is serialised as a %T, not as the expansion of the next level", k, next[3])
				return
			}
			next = inner
		}
		cur = next
	}
	var rec stackage.Stack
	if p, msg, site := Guard(func() { err = rec.Marshal(u...) }); p || err != nil {
		c.Violatef("tower:marshal", desc, "Marshal of the serialised chain: panic=%v (%s %s) err=%v", p, msg, site, err)
		return
	}
	orig := map[uintptr]bool{}
	for _, s := range levels {
		d, _ := stackage.VerifDump(s)
		orig[d.HdrAddr] = true
	}
	at := rec
	for k := 0; k < depth; k++ {
		d, _ := stackage.VerifDump(at)
		if orig[d.HdrAddr] {
			c.Violatef("tower:reconstruction-shares-original", desc, "level %d of the reconstruction IS the original's instance (nothing was reconstructed from there on)", k)
			return
		}
		if !strings.EqualFold(at.Kind(), kinds[k%4]) || at.Len() != 2 {
			c.Violatef("tower:reconstruction", desc, "level %d of the reconstruction is a %s of %d elements", k, at.Kind(), at.Len())
			return
		}
		if k == depth-1 {
			break
		}
		v, _ := at.Index(1)
		if cd, ok := AsCond(v); ok {
			v = cd.Expression()
		}
		ns, ok := AsStack(v)
		if !ok {
			c.Violatef("tower:reconstruction", desc, "level %d of the reconstruction holds %s where the next level belongs", k, Show(v))
			return
		}
		at = ns
	}
	if e := levels[0].IsEqual(rec); e != nil {
		c.Violatef("tower:is-equal", desc, "IsEqual(original, reconstruction) = %v", e)
		return
	}
	c.Count("towers")
	c.NontrivialStr(fmt.Sprintf("tower|%d|%d", depth>>5, condEvery))
}

func c04Run(c *core.Ctx, idx int) {
	if idx%5000 == 2500 {
		c04Tower(c)
		return
	}
	r := c.Rng
	tree := c04Gen.Gen(r)
	if idx%5000 == 1250 {
		// a nested stack (and a Condition's expression) of another magnitude, followed by ordinary elements
		n := []int{255, 256, 4095, 4096, 65535, 65536, 65537, 70000}[r.Intn(8)]
		big := func() *TNode {
			b := &TNode{T: "stack", Kind: []string{"LIST", "AND", "OR"}[r.Intn(3)]}
			for i := 0; i < n; i++ {
				b.Kids = append(b.Kids, &TNode{T: "leaf", Leaf: &LeafDesc{Tag: "int", I: int64(i)}})
			}
			return b
		}
		tree = &TNode{T: "stack", Kind: "AND", Kids: []*TNode{{T: "leaf", Leaf: &LeafDesc{Tag: "str", S: "before"}}, big(),
			{T: "leaf", Leaf: &LeafDesc{Tag: "str", S: "after"}}, {T: "cond", Kw: "big", Op: &OpDesc{Code: 1}, Expr: big()}, {T: "leaf", Leaf: &LeafDesc{Tag: "int", I: 7}}}}
		c.Count("trees.with-nested-stack-of-another-magnitude")
	}
	withCapOrFold := false
	if r.Chance(1, 6) {
		tree.Walk(func(n *TNode) {
			if n.T == "stack" && r.Chance(1, 3) {
				if r.Bool() {
					n.Cap = len(n.Kids) + r.Intn(2)
				} else {
					n.Fold = true
				}
				withCapOrFold = true
			}
		})
	}
	if r.Chance(1, 4) {
		// presentation symbols must not leak into the marshalled form
		tree.Walk(func(n *TNode) {
			if n.T == "stack" && n.Kind != "LIST" && r.Chance(1, 2) {
				n.Sym = []string{"&&", "||", "!", "und"}[r.Intn(4)]
			}
		})
	}
	if r.Chance(1, 12) {
		// a wide stack somewhere (element counts well past the small-slice regime)
		var stacks []*TNode
		tree.Walk(func(n *TNode) {
			if n.T == "stack" && n.Cap == 0 {
				stacks = append(stacks, n)
			}
		})
		if len(stacks) > 0 {
			w := stacks[r.Intn(len(stacks))]
			for i, n := 0, r.Range(14, 40); i < n; i++ {
				w.Kids = append(w.Kids, &TNode{T: "leaf", Leaf: &LeafDesc{Tag: "int", I: int64(i)}})
			}
			c.Count("trees.with-wide-stack")
		}
	}
	if r.Chance(1, 6) {
		tree.Walk(func(n *TNode) {
			if n.T == "stack" && r.Chance(1, 3) {
				n.NoNest = true // switched on after the elements are in: says nothing about what is already held
			}
			if n.T == "cond" && n.Op != nil && r.Chance(1, 3) {
				n.Op = &OpDesc{Code: 100 + r.Intn(3)}
			}
		})
		c.Count("trees.with-late-no-nesting-or-zero-valued-operators")
	}
	if r.Chance(1, 60) {
		// very many Conditions in one stack, followed by further nested elements
		var stacks []*TNode
		tree.Walk(func(n *TNode) {
			if n.T == "stack" && n.Cap == 0 {
				stacks = append(stacks, n)
			}
		})
		if len(stacks) > 0 {
			w := stacks[r.Intn(len(stacks))]
			tail := w.Kids
			w.Kids = nil
			for i, n := 0, r.Range(130, 220); i < n; i++ {
				w.Kids = append(w.Kids, &TNode{T: "cond", Kw: fmt.Sprintf("k%d", i), Op: &OpDesc{Code: 1 + i%6}, Expr: &TNode{T: "leaf", Leaf: &LeafDesc{Tag: "int", I: int64(i)}}})
			}
			w.Kids = append(w.Kids, tail...)
			w.Kids = append(w.Kids, &TNode{T: "stack", Kind: "OR", Kids: []*TNode{{T: "leaf", Leaf: &LeafDesc{Tag: "str", S: "after-many"}}}},
				&TNode{T: "cond", Kw: "last", Op: &OpDesc{Code: 2}, Expr: &TNode{T: "stack", Kind: "LIST", Kids: []*TNode{{T: "leaf", Leaf: &LeafDesc{Tag: "str", S: "z"}}}}})
			c.Count("trees.with-very-many-conditions")
		}
	}
	if r.Chance(1, 8) {
		// an error left behind in some instance by an earlier call says nothing about what the instance holds
		tree.Walk(func(n *TNode) {
			if (n.T == "stack" || n.T == "cond") && r.Chance(1, 3) {
				n.LeftErr = true
			}
		})
		c.Count("trees.with-left-over-errors")
	}
	if r.Chance(1, 8) {
		// Conditions assembled piecemeal that never received an operator
		tree.Walk(func(n *TNode) {
			if n.T == "cond" && r.Chance(1, 2) {
				n.Op = nil
			}
		})
		c.Count("trees.with-operator-less-conditions")
	}
	if r.Chance(1, 25) {
		// a stack that merely LOOKS like the serialised form of something else: three elements, a string, an operator
		// constant and a value (a Condition row without its label); two- and four-element cousins
		var stacks []*TNode
		tree.Walk(func(n *TNode) {
			if n.T == "stack" && n.Cap == 0 {
				stacks = append(stacks, n)
			}
		})
		if len(stacks) > 0 {
			w := stacks[r.Intn(len(stacks))]
			look := &TNode{T: "stack", Kind: Kinds[r.Intn(4)], Kids: []*TNode{{T: "leaf", Leaf: &LeafDesc{Tag: "str", S: []string{"cn", "CONDITION", "kw"}[r.Intn(3)]}},
				{T: "leaf", Leaf: &LeafDesc{Tag: "cmp-op", I: int64(1 + r.Intn(6))}}, {T: "leaf", Leaf: c04Leaf(r)}}}
			switch r.Intn(4) {
			case 0:
				look.Kids = look.Kids[:2]
			case 1:
				look.Kids = append(look.Kids, &TNode{T: "leaf", Leaf: &LeafDesc{Tag: "str", S: "fourth"}})
			}
			w.Kids = append(w.Kids, look)
			c.Count("trees.with-row-lookalike-stacks")
		}
	}
	if sp := core.NewRng(core.Mix(uint64(c.Seed)+0x5b1ce, uint64(idx))); sp.Chance(1, 6) {
		// (own PRNG stream, so that the rest of the case is what it was without this step)
		if did := Spice(sp, tree, sp.Chance(1, 2), sp.Chance(1, 2), sp.Chance(1, 2)); did != "" {
			c.Count("trees.spiced." + strings.TrimSpace(strings.ReplaceAll(strings.TrimSpace(did), " ", "+")))
		}
	}
	S := tree.BuildStack()
	desc := map[string]any{"tree": tree}
	var u []any
	var uerr error
	if p, msg, site := Guard(func() { u, uerr = S.Unmarshal() }); p {
		c.Violatef("panic:"+site, desc, "Unmarshal panicked: %s on %s", msg, tree.Brief())
		return
	}
	if uerr != nil {
		c.Violatef("unmarshal-error", desc, "Unmarshal returned %v on %s", uerr, tree.Brief())
		return
	}
	// (a) the unmarshalled shape
	if d := shapeMatch(u, refShape(tree), "u"); d != "" {
		c.Violatef("unmarshal-shape", desc, "Unmarshal shape differs at %s; tree %s; got %s", d, tree.Brief(), showJunk(u, 0))
		return
	}
	c.Count("shapes-checked")
	for mode := 0; mode < 2; mode++ {
		var R stackage.Stack
		var err error
		if p, msg, site := Guard(func() {
			if mode == 0 {
				err = R.Marshal(u...)
			} else {
				err = R.Marshal(u)
			}
		}); p {
			c.Violatef("panic:"+site, desc, "Marshal panicked: %s on %s", msg, showJunk(u, 0))
			return
		}
		how := []string{"Marshal(u...)", "Marshal(u)"}[mode]
		if err != nil {
			c.Violatef("marshal-error", desc, "%s returned %v for the Unmarshal output of %s", how, err, tree.Brief())
			return
		}
		// (b) node-by-node walk of the reconstruction
		if d := valueMatches(R, tree, "R"); d != "" {
			c.Violatef("reconstruction", desc, "%s: reconstruction differs at %s; tree %s", how, d, tree.Brief())
			return
		}
		// (c) unmarshal of the reconstruction
		u2, err2 := R.Unmarshal()
		if err2 != nil {
			c.Violatef("unmarshal-error", desc, "Unmarshal of the reconstruction returned %v", err2)
			return
		}
		if d := unmarshalEq(u, u2, "u"); d != "" {
			c.Violatef("second-unmarshal", desc, "%s: Unmarshal(reconstruction) differs from the first at %s; tree %s", how, d, tree.Brief())
			return
		}
		// (d) IsEqual both ways (additional, when neither capacity nor case folding is involved)
		if !withCapOrFold {
			if e := S.IsEqual(R); e != nil {
				c.Violatef("isequal", desc, "%s: original.IsEqual(reconstruction)=%v; tree %s", how, e, tree.Brief())
				return
			}
			if e := R.IsEqual(S); e != nil {
				c.Violatef("isequal", desc, "%s: reconstruction.IsEqual(original)=%v; tree %s", how, e, tree.Brief())
				return
			}
			c.Count("isequal-checked")
		}
		c.Count("round-trips")
		// the reconstruction is the caller's: writing into its (empty) nested stacks is nobody else's business - a later
		// reconstruction in this process must not find what is pushed here
		var pollute func(s stackage.Stack, d int)
		pollute = func(s stackage.Stack, d int) {
			for i := 0; i < s.Len() && d < 6; i++ {
				v, _ := s.Index(i)
				if cd, ok := AsCond(v); ok && cd.IsInit() {
					v = cd.Expression()
				}
				if ns, ok := AsStack(v); ok && ns.IsInit() {
					if ns.Len() == 0 {
						ns.Push("written into a reconstruction")
					} else {
						pollute(ns, d+1)
					}
				}
			}
		}
		pollute(R, 0)
	}
	// second phase: write to a stack somewhere INSIDE the original tree (through its own handle), then unmarshal the
	// root again - the answer must follow the content, whatever was computed for the first answer
	if idx%4 == 0 {
		var nested []*TNode
		tree.Walk(func(n *TNode) {
			if n.T == "stack" && n != tree && n.Cap == 0 {
				nested = append(nested, n)
			}
		})
		if len(nested) > 0 {
			target := nested[r.Intn(len(nested))]
			path := findPath(tree, target)
			if live, ok := liveAt(S, path); ok {
				extra := &TNode{T: "leaf", Leaf: &LeafDesc{Tag: "str", S: "added-later"}}
				live.Push(extra.Build())
				target.Kids = append(target.Kids, extra)
				u3, err3 := S.Unmarshal()
				if err3 != nil {
					c.Violatef("unmarshal-error", desc, "second Unmarshal returned %v", err3)
					return
				}
				if d := shapeMatch(u3, refShape(tree), "u"); d != "" {
					c.Violatef("unmarshal-stale", desc, "after a Push onto a nested stack, Unmarshal of the root differs from the new shape at %s; tree %s", d, tree.Brief())
					return
				}
				c.Count("unmarshal-after-nested-write")
			}
		}
	}
	condStack := false
	tree.Walk(func(n *TNode) {
		if n.T == "cond" && n.Expr != nil && n.Expr.T == "stack" {
			condStack = true
		}
	})
	if tree.Depth() >= 2 && condStack {
		c.NontrivialStr(core.JSON(tree))
		c.Count("trees.deep-with-condition-stack")
	}
	if c.WantSample() && condStack && idx%401 == 5 {
		c.Sample(map[string]any{"tree": tree.Brief(), "unmarshal": showJunk(u, 0)})
	}
}

func init() {
	core.Register(&core.Monitor{
		ID:    "C04",
		Cases: c04Tier,
		Run:   c04Run,
		Rule: "random trees of depth <= 4, width 0..4 over all five kinds (empty stacks, single-child chains, label-like strings as ordinary values), Conditions with built-in and user-defined operators whose expression is a primitive, a Stack or a Condition, primitive and nil leaves; a sixth of the trees carries capacity or case folding. " +
			"Per tree: (a) Unmarshal equals the shape computed from the description (labels case-insensitive; a Condition-valued expression may be passed through or expanded); (b) Marshal(u...) and Marshal(u) on a zero Stack return nil and the reconstruction matches the description node by node through Kind/Len/Index/Keyword/Operator/Expression; " +
			"(c) Unmarshal(reconstruction) deep-equals u; (d) without capacity/fold IsEqual holds in both directions; (e) on every fourth tree a value is pushed onto a nested stack afterwards and Unmarshal of the root must show the new shape. One tree in twelve contains a stack of 14..44 elements. non-trivial = depth >= 2 with a Condition holding a Stack; distinct = tree description.",
		Assumptions: []string{"(d) relies on the library's own comparator and is therefore an additional assertion only", "aliases are C12's subject; natives only here"},
		Floors: func(string) map[string]int64 {
			return map[string]int64{"round-trips": 20000, "towers": 12, "trees.with-nested-stack-of-another-magnitude": 12, "trees.with-left-over-errors": 5000, "cases.with-bystander-goroutines": 3000, "trees.deep-with-condition-stack": 3000, "isequal-checked": 10000, "unmarshal-after-nested-write": 5000, "trees.with-wide-stack": 2000}
		},
	})
}
