package mon

import (
	"fmt"
	"reflect"
	"regexp"
	"strings"

	stackage "github.com/JesseCoretta/go-stackage"
	"verifharness/core"
)

// C18 — options are independent switches with faithful getters.

type optDef struct {
	Name string
	Bit  uint16
	Set  func(s stackage.Stack, st ...bool)
	Dep  func(s stackage.Stack, st ...bool) // deprecated spelling
}

var stackOpts = []optDef{
	{"Paren", 1, func(s stackage.Stack, st ...bool) { s.SetParen(st...) }, func(s stackage.Stack, st ...bool) { s.Paren(st...) }},
	{"Fold", 2, func(s stackage.Stack, st ...bool) { s.SetFold(st...) }, func(s stackage.Stack, st ...bool) { s.Fold(st...) }},
	{"NoPadding", 4, func(s stackage.Stack, st ...bool) { s.SetNoPadding(st...) }, func(s stackage.Stack, st ...bool) { s.NoPadding(st...) }},
	{"LeadOnce", 8, func(s stackage.Stack, st ...bool) { s.SetLeadOnce(st...) }, func(s stackage.Stack, st ...bool) { s.LeadOnce(st...) }},
	{"NegativeIndices", 16, func(s stackage.Stack, st ...bool) { s.SetNegativeIndices(st...) }, func(s stackage.Stack, st ...bool) { s.NegativeIndices(st...) }},
	{"ForwardIndices", 32, func(s stackage.Stack, st ...bool) { s.SetForwardIndices(st...) }, func(s stackage.Stack, st ...bool) { s.ForwardIndices(st...) }},
	{"NoNesting", 256, func(s stackage.Stack, st ...bool) { s.SetNoNesting(st...) }, func(s stackage.Stack, st ...bool) { s.NoNesting(st...) }},
	{"ReadOnly", 128, func(s stackage.Stack, st ...bool) { s.SetReadOnly(st...) }, func(s stackage.Stack, st ...bool) { s.ReadOnly(st...) }},
}

type condOptDef struct {
	Name string
	Bit  uint16
	Set  func(c stackage.Condition, st ...bool)
	Dep  func(c stackage.Condition, st ...bool)
}

var condOpts = []condOptDef{
	{"Paren", 1, func(c stackage.Condition, st ...bool) { c.SetParen(st...) }, func(c stackage.Condition, st ...bool) { c.Paren(st...) }},
	{"NoPadding", 4, func(c stackage.Condition, st ...bool) { c.SetNoPadding(st...) }, func(c stackage.Condition, st ...bool) { c.NoPadding(st...) }},
	{"NoNesting", 256, func(c stackage.Condition, st ...bool) { c.SetNoNesting(st...) }, func(c stackage.Condition, st ...bool) { c.NoNesting(st...) }},
	{"ReadOnly", 128, func(c stackage.Condition, st ...bool) { c.SetReadOnly(st...) }, nil},
}

const roBit = 128

// a text far beyond any small-buffer regime (3 000 bytes, multi-byte runes included)
var c18LongText = strings.Repeat("long-текст-長い-", 120)

// applyMode: 0 set(true), 1 clear(false), 2 toggle()
func modelOpt(bits uint16, bit uint16, mode int) uint16 {
	if bits&roBit != 0 && bit != roBit {
		return bits // read-only: every other option is frozen (C09)
	}
	switch mode {
	case 0:
		return bits | bit
	case 1:
		return bits &^ bit
	}
	return bits ^ bit
}

func modeArgs(mode int) []bool {
	switch mode {
	case 0:
		return []bool{true}
	case 1:
		return []bool{false}
	}
	if toggleSpell%2 == 1 {
		return []bool{} // "passing nothing", spelled as an empty list (a forwarded args[1:]...)
	}
	return nil
}

func modeName(mode int) string { return []string{"true", "false", ""}[mode] }

func c18Tier(tier string) (L, stackExh, condExh, random int) {
	pow := func(b, e int) int {
		n, p := 0, 1
		for i := 0; i <= e; i++ {
			n += p
			p *= b
		}
		return n
	}
	if tier == "thorough" {
		return 4, pow(24, 4) * 4, pow(12, 4) * 2, 5000000
	}
	return 3, pow(24, 3) * 4, pow(12, 3) * 2, 100000
}

func decodeSeq(h, base, maxLen int) []int {
	p := 1
	for l := 0; l <= maxLen; l++ {
		if h < p {
			out := make([]int, l)
			for i := l - 1; i >= 0; i-- {
				out[i] = h % base
				h /= base
			}
			return out
		}
		h -= p
		p *= base
	}
	return nil
}

func c18CheckStackBits(c *core.Ctx, s stackage.Stack, bits uint16, before *Snap, log []string, last string) bool {
	fail := func(key, msg string) bool {
		c.Violate(key, fmt.Sprintf("%s after [%s]", msg, strings.Join(log, "; ")), map[string]any{"kind": s.Kind(), "calls": log})
		return false
	}
	sn, _ := stackage.VerifDump(s)
	if sn.Opt != bits {
		return fail("bits:"+last, fmt.Sprintf("option bits %#06x, model %#06x", sn.Opt, bits))
	}
	type g struct {
		name string
		got  bool
		want bool
	}
	for _, x := range []g{
		{"IsParen", s.IsParen(), bits&1 != 0},
		{"IsPadded", s.IsPadded(), bits&4 == 0},
		{"IsReadOnly", s.IsReadOnly(), bits&128 != 0},
		{"CanNest", s.CanNest(), bits&256 == 0},
	} {
		if x.got != x.want {
			return fail("getter:"+x.name, fmt.Sprintf("%s()=%v with option bits %#06x", x.name, x.got, bits))
		}
	}
	// behavioural reflection of the index options (they have no getter)
	if L := s.Len(); L >= 2 {
		_, okNeg := s.Index(-1)
		_, okFwd := s.Index(L + 3)
		if okNeg != (bits&16 != 0) {
			return fail("behaviour:neg-index", fmt.Sprintf("Index(-1) ok=%v with bits %#06x", okNeg, bits))
		}
		if okFwd != (bits&32 != 0) {
			return fail("behaviour:fwd-index", fmt.Sprintf("Index(Len+3) ok=%v with bits %#06x", okFwd, bits))
		}
	}
	if before != nil {
		now, _ := Take(s)
		if d := Diff(before, now, DiffOpts{IgnoreOpt: 0xffff}); d != "" {
			return fail("side-effect:"+last, "an option call changed something else: "+d)
		}
	}
	return true
}

func c18StackExh(c *core.Ctx, idx, maxLen int) {
	start := idx % 4
	seq := decodeSeq(idx/4, 24, maxLen)
	r := c.Rng
	kind := Kinds[r.Intn(5)]
	s := NewStack(kind, 0).Push("a", "b", 3)
	var bits uint16
	switch start {
	case 1:
		bits = 1 | 2 | 4 | 8
	case 2:
		bits = 16 | 32 | 256
	case 3:
		bits = uint16(r.Intn(512)) &^ (64 | 128)
	}
	for _, o := range stackOpts {
		if bits&o.Bit != 0 {
			o.Set(s, true)
		}
	}
	var log []string
	log = append(log, fmt.Sprintf("start=%#06x", bits))
	before, _ := Take(s)
	if !c18CheckStackBits(c, s, bits, nil, log, "start") {
		return
	}
	for _, sym := range seq {
		o, mode := stackOpts[sym/3], sym%3
		name := "Set" + o.Name
		call := o.Set
		if r.Chance(1, 4) {
			name, call = o.Name, o.Dep
		}
		call(s, modeArgs(mode)...)
		bits = modelOpt(bits, o.Bit, mode)
		log = append(log, fmt.Sprintf("%s(%s)", name, modeName(mode)))
		c.Count("option-calls.stack")
		if !c18CheckStackBits(c, s, bits, before, log, name) {
			return
		}
	}
	c.Count("sequences.stack.exhaustive")
	if len(seq) >= 2 {
		c.NontrivialStr(fmt.Sprintf("S%d|%v", start, seq))
	}
	if c.WantSample() && idx%4999 == 11 {
		c.Sample(map[string]any{"kind": kind, "calls": log, "final_bits": bits})
	}
}

func c18CondExh(c *core.Ctx, idx, maxLen int) {
	start := idx % 2
	seq := decodeSeq(idx/2, 12, maxLen)
	r := c.Rng
	cd := stackage.Cond("kw", stackage.Eq, "v")
	var bits uint16
	if start == 1 {
		bits = 1 | 4 | 256
		cd.SetParen(true).SetNoPadding(true).SetNoNesting(true)
	}
	var log []string
	log = append(log, fmt.Sprintf("start=%#06x", bits))
	before, _ := Take(cd)
	for _, sym := range seq {
		o, mode := condOpts[sym/3], sym%3
		name := "Set" + o.Name
		call := o.Set
		if o.Dep != nil && r.Chance(1, 4) {
			name, call = o.Name, o.Dep
		}
		call(cd, modeArgs(mode)...)
		bits = modelOpt(bits, o.Bit, mode)
		log = append(log, fmt.Sprintf("%s(%s)", name, modeName(mode)))
		c.Count("option-calls.condition")
		fail := func(key, msg string) {
			c.Violate("cond:"+key, fmt.Sprintf("%s after [%s]", msg, strings.Join(log, "; ")), map[string]any{"calls": log})
		}
		sn, _ := stackage.VerifDump(cd)
		if sn.Opt != bits {
			fail("bits:"+name, fmt.Sprintf("option bits %#06x, model %#06x", sn.Opt, bits))
			return
		}
		if cd.IsParen() != (bits&1 != 0) || cd.IsPadded() != (bits&4 == 0) || cd.IsReadOnly() != (bits&128 != 0) || cd.CanNest() != (bits&256 == 0) {
			fail("getter", fmt.Sprintf("IsParen=%v IsPadded=%v IsReadOnly=%v CanNest=%v with bits %#06x", cd.IsParen(), cd.IsPadded(), cd.IsReadOnly(), cd.CanNest(), bits))
			return
		}
		now, _ := Take(cd)
		if d := Diff(before, now, DiffOpts{IgnoreOpt: 0xffff}); d != "" {
			fail("side-effect:"+name, "an option call changed something else: "+d)
			return
		}
	}
	c.Count("sequences.condition.exhaustive")
	if len(seq) >= 2 {
		c.NontrivialStr(fmt.Sprintf("C%d|%v", start, seq))
	}
}

// ---------------------------------------------------------------- log-level model

var lvlNames = []string{"CALLS", "POLICY", "STATE", "DEBUG", "ERROR", "TRACE", "USER1", "USER2", "USER3", "USER4", "USER5", "USER6", "USER7", "USER8", "USER9", "USER10"}

func lvlString(b uint16) string {
	if b == 0xffff {
		return "ALL"
	}
	if b == 0 {
		return "NONE"
	}
	var out []string
	for i := 0; i < 16; i++ {
		if b&(1<<i) != 0 {
			out = append(out, lvlNames[i])
		}
	}
	return strings.Join(out, ",")
}

type lvlArg struct {
	v    any
	bits uint16
	kind int // 0 ordinary, 1 none, 2 all
	desc string
}

func randLvlArg(r *core.Rng, allowShortcut bool) lvlArg {
	if allowShortcut && r.Chance(1, 6) {
		if r.Bool() {
			switch r.Intn(4) {
			case 0:
				return lvlArg{"none", 0, 1, `"none"`}
			case 1:
				return lvlArg{stackage.NoLogLevels, 0, 1, "NoLogLevels"}
			case 2:
				return lvlArg{0, 0, 1, "0"}
			}
			return lvlArg{"NONE", 0, 1, `"NONE"`}
		}
		switch r.Intn(3) {
		case 0:
			return lvlArg{"all", 0xffff, 2, `"all"`}
		case 1:
			return lvlArg{stackage.AllLogLevels, 0xffff, 2, "AllLogLevels"}
		}
		return lvlArg{65535, 0xffff, 2, "65535"}
	}
	i := r.Intn(16)
	switch r.Intn(4) {
	case 0:
		n := lvlNames[i]
		if r.Bool() {
			n = strings.ToLower(n)
		}
		return lvlArg{n, 1 << i, 0, fmt.Sprintf("%q", n)}
	case 1:
		return lvlArg{stackage.LogLevel(1 << i), 1 << i, 0, fmt.Sprintf("LogLevel(%d)", 1<<i)}
	case 2:
		b := uint16(r.Intn(0xfffe) + 1)
		return lvlArg{stackage.LogLevel(b), b, 0, fmt.Sprintf("LogLevel(%d)", b)}
	}
	b := r.Intn(0xfffe) + 1
	return lvlArg{b, uint16(b), 0, fmt.Sprintf("%d", b)}
}

var randIDRe = regexp.MustCompile(`^[A-Z0-9]{24}$`)

// ---------------------------------------------------------------- random mixed sequences

func c18Random(c *core.Ctx, idx int) {
	r := c.Rng
	if idx%4 == 3 {
		c18RandomCond(c, idx)
		return
	}
	kind := Kinds[r.Intn(5)]
	s := NewStack(kind, 0).Push("a", "b")
	bystander := stackage.Or().Push("by", "stander")
	bcond := stackage.Cond("bk", stackage.Eq, "bv")
	var log []string
	if r.Chance(1, 8) {
		// a stack its own validity policy currently rejects is still configurable (it merely renders as nothing)
		s.SetValidityPolicy(func(...any) error { return errPolicyRejects })
		log = append(log, "SetValidityPolicy(rejecting)")
		c.Count("random.under-a-rejecting-validity-policy")
	}
	fail := func(key, msg string) {
		c.Violate(key, fmt.Sprintf("%s on %s after [%s]", msg, kind, strings.Join(log, "; ")), map[string]any{"kind": kind, "calls": log})
	}
	var bits uint16
	id, cat, delim, sym := "", "", "", ""
	var enc [][]string
	// a new instance starts with the package default log level in force at its creation (first-sight modes 3..5 install one)
	var lvl uint16
	if d0, ok := stackage.VerifDump(s); ok {
		lvl = d0.LogLvl
	}
	fifo := false
	aux0 := stackage.Auxiliary(nil)
	content, _ := Take(s)
	for step := 0; step < 30; step++ {
		ro := bits&roBit != 0
		if r.Chance(1, 5) {
			// another, unrelated instance goes through its own settings in between (reset of its encapsulation and new
			// pairs, its own log levels, a re-Init of a copied Condition handle): this instance's settings are its own
			switch r.Intn(3) {
			case 0:
				bystander.SetEncap("|")
				bystander.SetEncap()
				bystander.SetEncap([]string{"{", "}"})
				bystander.SetEncap("#")
			case 1:
				bcond.SetEncap("^")
				bcond.SetEncap()
				bcond.SetEncap([]string{"(", ")"})
				bcond.SetLogLevel("trace", 64)
			default:
				// (the handle kept from before the re-Init is an instance of its own: its settings are what they were)
				bcond.SetLogLevel("debug", 4).SetID("kept").SetCategory("kept-cat").SetEncap("~")
				keep := bcond
				lv, id, cat, kw, txt := keep.LogLevels(), keep.ID(), keep.Category(), keep.Keyword(), keep.String()
				bcond.Init()
				bcond.SetKeyword("again").SetOperator(stackage.Ne).SetExpression(1).SetLogLevel(stackage.AllLogLevels)
				if r.Bool() {
					bcond.UnsetLogLevel(stackage.AllLogLevels)
				}
				bcond.SetID("fresh").SetCategory("fresh-cat").SetEncap("^")
				if keep.LogLevels() != lv || keep.ID() != id || keep.Category() != cat || keep.Keyword() != kw || keep.String() != txt {
					c.Violatef("kept-handle-after-reinit", map[string]any{"kind": kind},
						"a Condition handle kept from before Init was called again on the variable read levels=%q id=%q category=%q keyword=%q text=%q, and reads levels=%q id=%q category=%q keyword=%q text=%q after the NEW instance was given its settings",
						lv, id, cat, kw, txt, keep.LogLevels(), keep.ID(), keep.Category(), keep.Keyword(), keep.String())
					return
				}
				if bcond.ID() != "fresh" || bcond.Category() != "fresh-cat" || bcond.Keyword() != "again" {
					c.Violatef("fresh-instance-after-reinit", map[string]any{"kind": kind}, "the re-initialised Condition reads id=%q category=%q keyword=%q", bcond.ID(), bcond.Category(), bcond.Keyword())
					return
				}
			}
			c.Count("random.bystander-settings")
		}
		if r.Chance(1, 6) {
			// an error left over from some earlier call says nothing about the settings: every option keeps working
			if r.Chance(2, 3) {
				s.SetErr(errPolicyRejects)
				log = append(log, "SetErr(err)")
			} else {
				s.SetErr(nil)
				log = append(log, "SetErr(nil)")
			}
			c.Count("random.left-over-error-toggles")
		}
		what := r.Intn(11)
		c.Count("random.calls")
		switch what {
		case 0, 1:
			o, mode := stackOpts[r.Intn(len(stackOpts))], r.Intn(3)
			o.Set(s, modeArgs(mode)...)
			bits = modelOpt(bits, o.Bit, mode)
			log = append(log, fmt.Sprintf("Set%s(%s)", o.Name, modeName(mode)))
		case 2:
			arg := []string{"myid", "_random", "_RANDOM", "_addr", "", "x y", c18LongText, "ид-日本-𝛼", "( AND ) , = \"q\"", "_Random ", "_ADDR", " _addr"}[r.Intn(12)]
			s.SetID(arg)
			log = append(log, fmt.Sprintf("SetID(%q)", arg))
			if !ro {
				switch strings.ToLower(arg) {
				case "_random":
					got := s.ID()
					if !randIDRe.MatchString(got) {
						fail("id:random", fmt.Sprintf("ID()=%q after SetID(_random)", got))
						return
					}
					id = got
				case "_addr":
					id = s.Addr()
				default:
					id = arg
				}
			}
		case 3:
			arg := []string{"cat1", "", "Ünï", c18LongText, "a,b ( c ) AND", "\t"}[r.Intn(6)]
			s.SetCategory(arg)
			log = append(log, fmt.Sprintf("SetCategory(%q)", arg))
			if !ro {
				cat = arg
			}
		case 4:
			var arg any
			want := ""
			switch r.Intn(6) {
			case 0:
				arg, want = ",", ","
			case 1:
				arg, want = " | ", " | "
			case 2:
				arg, want = rune(';'), ";"
			case 3:
				arg, want = nil, ""
			case 4:
				arg, want = "", ""
			default:
				arg, want = rune(0), ""
			}
			s.SetDelimiter(arg)
			log = append(log, fmt.Sprintf("SetDelimiter(%s)", Show(arg)))
			if !ro && kind == "LIST" {
				delim = want
			}
		case 5:
			var args []any
			want := ""
			for i, n := 0, r.Intn(3); i < n; i++ {
				if r.Bool() {
					x := []string{"&", "|", "&&", "∧", "und", "OrElse", "AND", "and", "OR", "or", "NOT", "not", "BASIC"}[r.Intn(13)] // (a symbol is a symbol, also when it spells a kind word)
					args = append(args, x)
					want += x
				} else {
					x := []rune{'&', '|', '∨'}[r.Intn(3)]
					args = append(args, x)
					want += string(x)
				}
			}
			s.SetSymbol(args...)
			log = append(log, fmt.Sprintf("SetSymbol(%v)", args))
			if !ro && kind != "LIST" {
				sym = want
			}
		case 6:
			var args []any
			if r.Chance(1, 5) {
				s.SetEncap()
				log = append(log, "SetEncap()")
				if !ro {
					enc = nil
				}
				break
			}
			var spec []string
			chars := []string{`"`, "'", "(", ")", "<", ">", "[", "]", "«", "»", "Q", "q", "<b>", "<B>"} // (in use = the same string, letter case included)
			if r.Bool() {
				spec = []string{chars[r.Intn(len(chars))]}
				if r.Bool() {
					args = []any{spec[0]}
				} else {
					args = []any{spec}
				}
			} else {
				a, b := chars[r.Intn(len(chars))], chars[r.Intn(len(chars))]
				if a == b {
					b = "~"
				}
				spec = []string{a, b}
				args = []any{spec}
			}
			specs := [][]string{spec}
			if r.Chance(1, 3) {
				// a second specification in the same call; it may reuse a character of the first
				second := []string{[]string{spec[0], chars[r.Intn(len(chars))]}[r.Intn(2)]}
				if r.Bool() {
					second = append(second, "~")
				}
				if len(second) == 1 {
					args = append(args, second[0])
				} else {
					args = append(args, second)
				}
				specs = append(specs, second)
			}
			s.SetEncap(args...)
			log = append(log, fmt.Sprintf("SetEncap(%v)", specs))
			if !ro {
				for _, sp := range specs {
					used := false
					for _, e := range enc {
						for _, x := range e {
							for _, y := range sp {
								if x == y {
									used = true
								}
							}
						}
					}
					if !used {
						enc = append(enc, sp)
					}
				}
			}
		case 7:
			switch r.Intn(3) {
			case 0:
				mine := stackage.Auxiliary{"k": step}
				if r.Chance(1, 3) {
					mine = stackage.Auxiliary{} // allocated but empty: still the caller's map
				}
				s.SetAuxiliary(mine)
				log = append(log, "SetAuxiliary(map)")
				if !ro {
					aux0 = mine
				}
				if got := s.Auxiliary(); reflect.ValueOf(got).Pointer() != reflect.ValueOf(aux0).Pointer() {
					fail("aux:identity", "Auxiliary() does not return the map that was set")
					return
				}
			case 1:
				s.SetAuxiliary()
				log = append(log, "SetAuxiliary()")
				if !ro {
					got := s.Auxiliary()
					if got == nil || len(got) != 0 || (aux0 != nil && reflect.ValueOf(got).Pointer() == reflect.ValueOf(aux0).Pointer()) {
						fail("aux:fresh", "SetAuxiliary() did not install a fresh empty map")
						return
					}
					aux0 = got
				}
			default:
				s.SetAuxiliary(nil)
				log = append(log, "SetAuxiliary(nil)")
				if !ro {
					got := s.Auxiliary()
					if got == nil || len(got) != 0 {
						fail("aux:fresh", "SetAuxiliary(nil) did not install a fresh empty map")
						return
					}
					aux0 = got
				}
			}
			if aux0 != nil {
				if got := s.Auxiliary(); reflect.ValueOf(got).Pointer() != reflect.ValueOf(aux0).Pointer() {
					fail("aux:identity", "Auxiliary() identity changed")
					return
				}
			}
		case 8:
			n := r.Range(1, 3)
			var args []any
			var ds []string
			nl := lvl
			for i := 0; i < n; i++ {
				a := randLvlArg(r, i == n-1)
				args = append(args, a.v)
				ds = append(ds, a.desc)
				switch a.kind {
				case 1:
					nl = 0
				case 2:
					nl = 0xffff
				default:
					nl |= a.bits
				}
			}
			s.SetLogLevel(args...)
			log = append(log, "SetLogLevel("+strings.Join(ds, ",")+")")
			if !ro {
				lvl = nl
			}
		case 9:
			n := r.Range(1, 3)
			var args []any
			var ds []string
			nl := lvl
			unsetAll := false
			for i := 0; i < n; i++ {
				a := randLvlArg(r, i == n-1)
				args = append(args, a.v)
				ds = append(ds, a.desc)
				switch a.kind {
				case 1: // "none": nothing to remove
				case 2:
					unsetAll = true
				default:
					nl &^= a.bits
				}
			}
			s.UnsetLogLevel(args...)
			log = append(log, "UnsetLogLevel("+strings.Join(ds, ",")+")")
			if !ro {
				lvl = nl
				if unsetAll {
					// documentation says "log nothing", the code does nothing: the statement is silent, accept either
					sn, _ := stackage.VerifDump(s)
					if sn.LogLvl == 0 {
						lvl = 0
					}
					c.Count("loglevel.unset-all")
				}
			}
		case 10:
			b := r.Bool()
			s.SetFIFO(b)
			log = append(log, fmt.Sprintf("SetFIFO(%v)", b))
			if !ro && b {
				fifo = true
			}
		}
		// ---- compare everything with the model
		sn, _ := stackage.VerifDump(s)
		if sn.Opt != bits {
			fail("bits", fmt.Sprintf("option bits %#06x, model %#06x", sn.Opt, bits))
			return
		}
		if got := s.ID(); got != id {
			fail("id", fmt.Sprintf("ID()=%q, model %q", got, id))
			return
		}
		if got := s.Category(); got != cat {
			fail("category", fmt.Sprintf("Category()=%q, model %q", got, cat))
			return
		}
		if got := s.Delimiter(); got != delim {
			fail("delimiter", fmt.Sprintf("Delimiter()=%q, model %q", got, delim))
			return
		}
		if sn.Sym != sym {
			fail("symbol", fmt.Sprintf("symbol %q, model %q", sn.Sym, sym))
			return
		}
		if !reflect.DeepEqual(normEnc(sn.Enc), normEnc(enc)) {
			fail("encap", fmt.Sprintf("encapsulation %v, model %v", sn.Enc, enc))
			return
		}
		if got := s.IsEncap(); got != (len(enc) > 0) {
			fail("getter:IsEncap", fmt.Sprintf("IsEncap()=%v with %v", got, enc))
			return
		}
		if sn.LogLvl != lvl || s.LogLevels() != lvlString(lvl) {
			fail("loglevel", fmt.Sprintf("log levels %#06x %q, model %#06x %q", sn.LogLvl, s.LogLevels(), lvl, lvlString(lvl)))
			return
		}
		if got := s.IsFIFO(); got != fifo {
			fail("fifo", fmt.Sprintf("IsFIFO()=%v, model %v", got, fifo))
			return
		}
		if s.IsParen() != (bits&1 != 0) || s.IsPadded() != (bits&4 == 0) || s.IsReadOnly() != (bits&128 != 0) || s.CanNest() != (bits&256 == 0) {
			fail("getter", fmt.Sprintf("IsParen=%v IsPadded=%v IsReadOnly=%v CanNest=%v with bits %#06x", s.IsParen(), s.IsPadded(), s.IsReadOnly(), s.CanNest(), bits))
			return
		}
		// content untouched
		now, _ := Take(s)
		if len(now.S.Slots) != 2 || !SameValue(now.S.Slots[0], content.S.Slots[0]) || !SameValue(now.S.Slots[1], content.S.Slots[1]) {
			fail("content", "a settings call changed the content")
			return
		}
		// String() reflects symbol / delimiter / encapsulation / presentation bits
		if want, ok := RefRenderStack(s); ok {
			if got := s.String(); got != want {
				fail("string-reflection", fmt.Sprintf("String()=%q, reference rendering of the current settings %q", got, want))
				return
			}
			c.Count("string-reflections")
		}
	}
	c.Count("sequences.random")
	c.NontrivialStr(kind + "|" + strings.Join(log, ";"))
	if c.WantSample() && idx%499 == 3 {
		c.Sample(map[string]any{"kind": kind, "calls": log, "String": s.String()})
	}
}

func c18RandomCond(c *core.Ctx, idx int) {
	r := c.Rng
	cd := stackage.Cond("kw", stackage.Eq, "v")
	if r.Chance(1, 3) {
		// the expression is a Stack or a Condition with settings of its own: each level renders its own
		if r.Bool() {
			cd = stackage.Cond("kw", stackage.Eq, stackage.And().SetEncap(`"`).Push("a", "b"))
		} else {
			cd = stackage.Cond("kw", stackage.Eq, stackage.Cond("in", stackage.Ge, "w").SetEncap("'").SetParen(true))
		}
	}
	ex0 := cd.Expression()
	var log []string
	fail := func(key, msg string) {
		c.Violate("cond:"+key, fmt.Sprintf("%s after [%s]", msg, strings.Join(log, "; ")), map[string]any{"calls": log})
	}
	var bits, lvl uint16
	if d0, ok := stackage.VerifDump(cd); ok {
		lvl = d0.LogLvl
	}
	id, cat := "", ""
	var enc [][]string
	for step := 0; step < 24; step++ {
		ro := bits&roBit != 0
		if r.Chance(1, 6) {
			if r.Chance(2, 3) {
				cd.SetErr(errPolicyRejects)
				log = append(log, "SetErr(err)")
			} else {
				cd.SetErr(nil)
				log = append(log, "SetErr(nil)")
			}
		}
		switch r.Intn(7) {
		case 0, 1:
			o, mode := condOpts[r.Intn(len(condOpts))], r.Intn(3)
			o.Set(cd, modeArgs(mode)...)
			bits = modelOpt(bits, o.Bit, mode)
			log = append(log, fmt.Sprintf("Set%s(%s)", o.Name, modeName(mode)))
		case 2:
			arg := []string{"cid", "_random", "_addr", ""}[r.Intn(4)]
			cd.SetID(arg)
			log = append(log, fmt.Sprintf("SetID(%q)", arg))
			if !ro {
				switch arg {
				case "_random":
					if got := cd.ID(); !randIDRe.MatchString(got) {
						fail("id:random", fmt.Sprintf("ID()=%q after SetID(_random)", got))
						return
					} else {
						id = got
					}
				case "_addr":
					id = cd.Addr()
				default:
					id = arg
				}
			}
		case 3:
			arg := []string{"c1", "", c18LongText, "кат-類", "= ( ) \""}[r.Intn(5)]
			cd.SetCategory(arg)
			log = append(log, fmt.Sprintf("SetCategory(%q)", arg))
			if !ro {
				cat = arg
			}
		case 4:
			if r.Chance(1, 4) {
				cd.SetEncap()
				log = append(log, "SetEncap()")
				if !ro {
					enc = nil
				}
				break
			}
			chars := []string{`"`, "'", "(", ")", "<", ">", "x", "X"}
			spec := []string{chars[r.Intn(len(chars))]}
			if r.Bool() {
				b := chars[r.Intn(len(chars))]
				if b == spec[0] {
					b = "~"
				}
				spec = append(spec, b)
			}
			cd.SetEncap(spec)
			log = append(log, fmt.Sprintf("SetEncap(%v)", spec))
			if !ro {
				used := false
				for _, e := range enc {
					for _, x := range e {
						for _, y := range spec {
							if x == y {
								used = true
							}
						}
					}
				}
				if !used {
					enc = append(enc, spec)
				}
			}
		case 5:
			a := randLvlArg(r, true)
			cd.SetLogLevel(a.v)
			log = append(log, "SetLogLevel("+a.desc+")")
			if !ro {
				switch a.kind {
				case 1:
					lvl = 0
				case 2:
					lvl = 0xffff
				default:
					lvl |= a.bits
				}
			}
		case 6:
			a := randLvlArg(r, false)
			cd.UnsetLogLevel(a.v)
			log = append(log, "UnsetLogLevel("+a.desc+")")
			if !ro {
				lvl &^= a.bits
			}
		}
		sn, _ := stackage.VerifDump(cd)
		if sn.Opt != bits {
			fail("bits", fmt.Sprintf("option bits %#06x, model %#06x", sn.Opt, bits))
			return
		}
		if cd.ID() != id || cd.Category() != cat {
			fail("id-category", fmt.Sprintf("ID()=%q Category()=%q, model %q %q", cd.ID(), cd.Category(), id, cat))
			return
		}
		if !reflect.DeepEqual(normEnc(sn.Enc), normEnc(enc)) || cd.IsEncap() != (len(enc) > 0) {
			fail("encap", fmt.Sprintf("encapsulation %v IsEncap=%v, model %v", sn.Enc, cd.IsEncap(), enc))
			return
		}
		if sn.LogLvl != lvl || cd.LogLevels() != lvlString(lvl) {
			fail("loglevel", fmt.Sprintf("log levels %#06x %q, model %#06x %q", sn.LogLvl, cd.LogLevels(), lvl, lvlString(lvl)))
			return
		}
		if sn.Kw != "kw" || !SameValue(sn.Ex, ex0) {
			fail("content", "a settings call changed keyword/expression")
			return
		}
		if want, ok := RefRenderCond(cd); ok {
			if got := cd.String(); got != want {
				fail("string-reflection", fmt.Sprintf("String()=%q, reference %q", got, want))
				return
			}
		}
	}
	c.Count("sequences.random.condition")
	c.NontrivialStr("cond|" + strings.Join(log, ";"))
}

func c18Run(c *core.Ctx, idx int) {
	L, se, ce, _ := c18Tier(c.Tier)
	switch {
	case idx < se:
		c18StackExh(c, idx, L)
	case idx < se+ce:
		c18CondExh(c, idx-se, L)
	default:
		c18Random(c, idx-se-ce)
	}
}

func init() {
	core.Register(&core.Monitor{
		ID: "C18",
		Cases: func(tier string) int {
			_, a, b, r := c18Tier(tier)
			return a + b + r
		},
		Run: c18Run,
		Rule: "exhaustive: every sequence of length <= 3 (quick) / <= 4 (thorough) over {set,clear,toggle} x 8 Stack options from 4 start states and x 4 Condition options from 2 start states (current and deprecated setter spellings); " +
			"after every call the raw 16 option bits (VerifDump) equal a bit-set model, IsParen/IsPadded/IsReadOnly/CanNest agree, Index(-1)/Index(Len+3) reflect the index options, and a recursive snapshot shows nothing else changed. " +
			"random: 30-call sequences mixing option calls with SetID(_random/_addr/literal), SetCategory, SetDelimiter(string/rune/nil), SetSymbol(strings/runes/none), SetEncap(1-/2-element specs, reuse, clear), " +
			"SetAuxiliary(map/nil/none), SetLogLevel/UnsetLogLevel(names, constants, raw ints, none/all), SetFIFO, each compared with its getter, the raw record and the reference rendering of String(). " +
			"non-trivial = sequence of >= 2 calls; distinct = hash of the literal call sequence.",
		Assumptions: []string{
			"while read-only is set every other setting is frozen (C09), the model includes this",
			"'none'/'all' log-level shortcuts are only passed as the last argument; unknown names, negative or >65535 ints and non-string/rune delimiters are not offered (statement silent)",
			"UnsetLogLevel(all) may clear everything or do nothing (documentation and code disagree, statement silent): either is accepted",
		},
		Floors: func(string) map[string]int64 {
			return map[string]int64{"option-calls.stack": 10000, "option-calls.condition": 1000, "sequences.random": 1000, "random.bystander-settings": 50000, "cases.with-bystander-goroutines": 2500, "string-reflections": 1000}
		},
	})
}
