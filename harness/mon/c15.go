package mon

import (
	"fmt"

	stackage "github.com/JesseCoretta/go-stackage"
	"verifharness/core"
)

// C15 — Transfer copies everything or reports failure, and never touches the source.

var c15Forms = []string{"native", "alias", "ptr-alias", "ptr-native", "read-only", "zero", "int", "nil", "zero-alias", "nil-ptr-alias", "nonest-dst", "read-only-ptr-native", "read-only-alias", "read-only-ptr-alias"}

const (
	c15Src  = 7
	c15Dst  = 7
	c15Caps = 9
	c15Nil  = 3
)

func c15Total() int { return c15Src*c15Dst*c15Caps*2*c15Nil*len(c15Forms) + c15Large }

// large sources (pre-sizing / bulk paths): 1..200 elements into fresh or capacity-limited destinations
const c15Large = 600

type c15Case struct {
	SrcLen     int    `json:"src_len"`
	DstLen     int    `json:"dst_len"`
	Cap        int    `json:"dst_cap"` // 0 = none
	SrcFifo    bool   `json:"src_fifo"`
	NilPat     int    `json:"nil_pattern"` // 0 none, 1 one nil, 2 two nils
	Form       string `json:"dst_form"`
	Kinds      string `json:"kinds"`
	DstHistory bool   `json:"dst_with_history,omitempty"`
	DstMutex   bool   `json:"dst_mutex,omitempty"`
	DstFifo    bool   `json:"dst_fifo,omitempty"`
}

func c15Decode(idx int) c15Case {
	var k c15Case
	k.Form = c15Forms[idx%len(c15Forms)]
	idx /= len(c15Forms)
	k.NilPat = idx % c15Nil
	idx /= c15Nil
	k.SrcFifo = idx%2 == 1
	idx /= 2
	k.Cap = idx % c15Caps
	idx /= c15Caps
	k.DstLen = idx % c15Dst
	idx /= c15Dst
	k.SrcLen = idx % c15Src
	return k
}

func contentOf(s stackage.Stack) []any {
	sn, _ := stackage.VerifDump(s)
	return sn.Slots
}

func sameContent(a, b []any) bool {
	if len(a) != len(b) {
		return false
	}
	for i := range a {
		if !SameValue(a[i], b[i]) {
			return false
		}
	}
	return true
}

func showList(a []any) string {
	m := ListModel{Items: a}
	return m.String()
}

// c15RunSelf: the source holds (a handle of) the destination among its elements. Nothing in the statement exempts that
// element: a true result still means "previous elements followed by EVERY element of the source, in order". The
// destination then contains itself, so only shallow, identity-based observations are made here.
func c15RunSelf(c *core.Ctx) {
	r := c.Rng
	dst := NewStack(Kinds[r.Intn(5)], 0)
	pre := r.Intn(3)
	for i := 0; i < pre; i++ {
		dst.Push(fmt.Sprintf("d%d", i))
	}
	form := []string{"native", "alias", "ptr-native", "ptr-alias"}[r.Intn(4)]
	var handle any = dst
	switch form {
	case "alias":
		handle = AStack(dst)
	case "ptr-native":
		handle = &dst
	case "ptr-alias":
		a := AStack(dst)
		handle = &a
	}
	n := r.Range(1, 4)
	at := r.Intn(n)
	src := NewStack(Kinds[r.Intn(5)], 0)
	var want []any
	for i := 0; i < n; i++ {
		if i == at {
			src.Push(handle)
			want = append(want, handle)
		} else {
			v := fmt.Sprintf("s%d", i)
			src.Push(v)
			want = append(want, v)
		}
	}
	desc := map[string]any{"form": form, "src_len": n, "handle_at": at, "dst_len": pre}
	var ok bool
	if p, msg, site := Guard(func() { ok = src.Transfer(dst) }); p {
		c.Violatef("panic:"+site+":self-in-source", desc, "Transfer panicked: %s", msg)
		return
	}
	c.Count("self-in-source")
	if src.Len() != n {
		c.Violatef("source-changed", desc, "source length %d, was %d", src.Len(), n)
		return
	}
	for i := 0; i < n; i++ {
		v, _ := src.Index(i)
		if (i == at && !sameInstance(v, handle)) || (i != at && v != want[i]) {
			c.Violatef("source-changed", desc, "source position %d changed", i)
			return
		}
	}
	if !ok {
		if dst.Len() != pre {
			c.Violatef("partial-copy:self-in-source", desc, "Transfer returned false but the destination grew from %d to %d", pre, dst.Len())
		}
		return
	}
	if dst.Len() != pre+n {
		c.Violatef("false-success:self-in-source", desc, "Transfer returned true; the destination holds %d elements, expected %d (its previous %d followed by all %d of the source)", dst.Len(), pre+n, pre, n)
		return
	}
	for i := 0; i < n; i++ {
		v, _ := dst.Index(pre + i)
		if (i == at && !sameInstance(v, handle)) || (i != at && v != want[i]) {
			c.Violatef("wrong-content", desc, "Transfer returned true; destination position %d does not hold source element %d", pre+i, i)
			return
		}
	}
}

// c15RunNested: while the destination's push policy is being consulted (i.e. in the middle of a Transfer) it runs
// another Transfer between two unrelated stacks. Each Transfer is its own affair.
func c15RunNested(c *core.Ctx) {
	r := c.Rng
	n := r.Range(2, 6)
	src := NewStack(Kinds[r.Intn(5)], 0)
	var want []any
	for i := 0; i < n; i++ {
		v := fmt.Sprintf("s%d", i)
		src.Push(v)
		want = append(want, v)
	}
	queue, archive := stackage.List().Push("q0", "q1", "q2"), stackage.Basic().Push("a0")
	innerOK, innerRuns := true, 0
	dst := NewStack(Kinds[r.Intn(5)], 0).Push("d0")
	trigger := want[r.Intn(n)]
	dst.SetPushPolicy(func(x ...any) error {
		if len(x) == 1 && x[0] == trigger {
			innerRuns++
			innerOK = queue.Transfer(archive) && archive.Len() == 1+3*innerRuns
		}
		return nil
	})
	desc := map[string]any{"src_len": n, "trigger": trigger}
	var ok bool
	if p, msg, site := Guard(func() { ok = src.Transfer(dst) }); p {
		c.Violatef("panic:"+site+":nested-transfer", desc, "Transfer panicked: %s", msg)
		return
	}
	c.Count("nested-transfer")
	if !innerOK {
		c.Violatef("wrong-content:inner", desc, "the Transfer run from inside the destination's push policy failed or miscounted (archive holds %d)", archive.Len())
		return
	}
	if ok {
		got := contentOf(dst)
		if !sameContent(append([]any{"d0"}, want...), got) {
			c.Violatef("wrong-content", desc, "Transfer returned true; destination holds %s, expected d0 followed by %s", showList(got), showList(want))
			return
		}
	}
	if !sameContent(want, contentOf(src)) {
		c.Violatef("source-changed", desc, "source changed: %s", showList(contentOf(src)))
	}
}

func c15RunLarge(c *core.Ctx) {
	r := c.Rng
	if r.Chance(1, 4) {
		c15RunSelf(c)
		return
	}
	if r.Chance(1, 5) {
		c15RunNested(c)
		return
	}
	n := []int{1, 8, 63, 64, 65, 100, 128, 200}[r.Intn(8)]
	if r.Chance(1, 8) {
		n = []int{255, 257, 4095, 4097, 5000, 9000, 65535, 65537, 70000}[r.Intn(9)] // sources of another magnitude
	}
	src := NewStack(Kinds[r.Intn(5)], 0)
	for i := 0; i < n; i++ {
		src.Push(i + 1)
	}
	capacity := []int{0, 0, n - 1, n, n + 5}[r.Intn(5)]
	if n > 300 && r.Chance(1, 2) {
		capacity = n - n/10 + r.Intn(3) // room for most of the source, not for all of it
	}
	if capacity < 0 {
		capacity = 0
	}
	dst := NewStack(Kinds[r.Intn(5)], capacity)
	pre := r.Intn(3)
	if capacity > 0 && pre > capacity {
		pre = capacity
	}
	for i := 0; i < pre; i++ {
		dst.Push(fmt.Sprintf("d%d", i))
	}
	if r.Chance(1, 3) {
		dst.SetMutex()
	}
	if r.Chance(1, 3) {
		dst.SetPushPolicy(func(...any) error { return nil }) // (an accepting policy: the destination's own business)
	}
	if r.Chance(1, 3) {
		dst.SetErr(errPolicyRejects) // an error some earlier call left in the destination: part of "exactly as it was"
	}
	desc := map[string]any{"src_len": n, "dst_len": pre, "dst_cap": capacity}
	s0, _ := Take(src)
	d0, _ := Take(dst)
	dst0, srcC := contentOf(dst), contentOf(src)
	var ok bool
	if p, msg, site := Guard(func() { ok = src.Transfer(dst) }); p {
		c.Violatef("panic:"+site+":large", desc, "Transfer of %d elements panicked: %s", n, msg)
		return
	}
	s1, _ := Take(src)
	d1, _ := Take(dst)
	if d := Diff(s0, s1, DiffOpts{Raw: true}); d != "" {
		c.Violatef("source-changed", desc, "source changed: %s", d)
		return
	}
	fits := capacity == 0 || capacity-pre >= n
	switch {
	case ok:
		want := append(append([]any{}, dst0...), srcC...)
		if !sameContent(want, contentOf(dst)) {
			c.Violatef("wrong-content", desc, "Transfer of %d elements returned true; destination holds %d elements, expected %d", n, dst.Len(), len(want))
			return
		}
		if d1.S.Ldr {
			c.Violatef("lock-left-held", desc, "destination lock bookkeeping still set after Transfer")
			return
		}
	case !fits:
		if d := Diff(d0, d1, DiffOpts{}); d != "" {
			c.Violatef("partial-copy:capacity", desc, "refused transfer changed the destination: %s", d)
			return
		}
	}
	c.Count("large-sources")
	c.NontrivialStr(core.JSON(desc))
}

func c15Run(c *core.Ctx, idx int) {
	if idx >= c15Total()-c15Large {
		c15RunLarge(c)
		return
	}
	k := c15Decode(idx)
	if k.Cap > 0 && k.DstLen > k.Cap {
		c.Count("skipped.dst-longer-than-cap")
		return
	}
	r := c.Rng
	sk, dk := Kinds[r.Intn(5)], Kinds[r.Intn(5)]
	k.Kinds = sk + "->" + dk
	next := uniqueVals()
	src := NewStack(sk, 0)
	if k.SrcFifo {
		src.SetFIFO(true)
	}
	nilAt := map[int]bool{}
	if k.SrcLen > 0 {
		for i := 0; i < k.NilPat; i++ {
			nilAt[r.Intn(k.SrcLen)] = true
		}
	}
	for i := 0; i < k.SrcLen; i++ {
		if nilAt[i] {
			src.Push(nil)
		} else if k.Form == "nonest-dst" && i == k.SrcLen/2 {
			src.Push(stackage.And().Push(next()))
		} else if r.Chance(1, 10) {
			// an element that is itself a []any: ONE element, here as there
			sl := []any{next()}
			if r.Bool() {
				sl = append(sl, next(), next())
			}
			// (placed by Insert at the end rather than by Push: how Push treats a lone slice argument is C01's business,
			// here the slice has to BE an element of the source whatever Push does)
			src.Insert(any(sl), src.Len())
		} else {
			src.Push(next())
		}
	}
	dst := NewStack(dk, k.Cap)
	if (k.Cap == 0 || k.DstLen < k.Cap) && r.Chance(1, 4) {
		// a destination with a history: its backing array has been rebuilt and over-grown by Remove/Insert/Push,
		// so the slice's builtin capacity no longer equals the configured one
		k.DstHistory = true
		dst.Push("h0")
		for i := 0; i < k.DstLen; i++ {
			dst.Push(next())
		}
		dst.Remove(0)
		dst.Push("h1")
		dst.Pop()
	} else {
		for i := 0; i < k.DstLen; i++ {
			dst.Push(next())
		}
	}
	if r.Chance(1, 3) {
		dst.SetMutex() // a refused or completed transfer must leave the destination's lock released
		k.DstMutex = true
	}
	if r.Chance(1, 3) {
		dst.SetFIFO(true) // the destination's ordering mode is about its Pop, not about what a refused Transfer leaves
		k.DstFifo = true
	}
	var arg any
	inert := false // destination that must refuse
	switch k.Form {
	case "native":
		arg = dst
	case "nonest-dst":
		dst.SetNoNesting(true)
		arg = dst
	case "alias":
		arg = AStack(dst)
	case "ptr-alias":
		a := AStack(dst)
		arg = &a
	case "ptr-native":
		arg = &dst
	case "read-only":
		dst.SetReadOnly(true)
		arg, inert = dst, true
	case "read-only-ptr-native":
		dst.SetReadOnly(true)
		arg, inert = &dst, true
	case "read-only-alias":
		dst.SetReadOnly(true)
		arg, inert = AStack(dst), true
	case "read-only-ptr-alias":
		dst.SetReadOnly(true)
		a := AStack(dst)
		arg, inert = &a, true
	case "zero":
		arg, inert = stackage.Stack{}, true
	case "int":
		arg, inert = 42, true
	case "nil":
		arg, inert = nil, true
	case "zero-alias":
		arg, inert = AStack{}, true
	case "nil-ptr-alias":
		arg, inert = (*AStack)(nil), true
	}
	s0, _ := Take(src)
	d0, _ := Take(dst)
	dst0 := contentOf(dst)
	srcContent := contentOf(src)
	var ok bool
	if p, msg, site := Guard(func() { ok = src.Transfer(arg) }); p {
		c.Violatef("panic:"+site+":"+k.Form, k, "Transfer(%s destination) panicked: %s", k.Form, msg)
		return
	}
	c.Count("form." + k.Form)
	s1, _ := Take(src)
	d1, _ := Take(dst)
	if d := Diff(s0, s1, DiffOpts{Raw: true}); d != "" {
		c.Violatef("source-changed", k, "source changed by Transfer: %s", d)
		return
	}
	dst1 := contentOf(dst)
	free := -1
	if k.Cap > 0 {
		free = k.Cap - k.DstLen
	}
	switch {
	case inert:
		if ok {
			c.Violatef("false-success:"+k.Form, k, "Transfer into a %s destination returned true", k.Form)
		} else if d := Diff(d0, d1, DiffOpts{}); d != "" {
			c.Violatef("inert-destination-changed:"+k.Form, k, "%s destination changed: %s", k.Form, d)
		}
		c.Count("outcome.refused-inert")
	case free >= 0 && free < k.SrcLen:
		if ok {
			c.Violatef("false-success:capacity", k, "Transfer returned true although only %d of %d elements fit; dst %s -> %s", free, k.SrcLen, showList(dst0), showList(dst1))
		} else if d := Diff(d0, d1, DiffOpts{}); d != "" {
			c.Violatef("partial-copy:capacity", k, "Transfer returned false but changed the destination: %s (dst %s -> %s)", d, showList(dst0), showList(dst1))
		}
		c.Count("outcome.refused-capacity")
	default:
		if ok {
			want := append(append([]any{}, dst0...), srcContent...)
			if !sameContent(want, dst1) {
				c.Violatef("wrong-content", k, "Transfer returned true; dst is %s, expected %s", showList(dst1), showList(want))
			}
			if d := CfgDiff(d0.S, d1.S, 0); d != "" {
				c.Violatef("destination-config-changed", k, "destination configuration changed: %s", d)
			}
			c.Count("outcome.copied")
		} else {
			// failure although everything would fit: allowed by the statement; counted, not judged
			c.Count("outcome.refused-with-room")
		}
	}
	if k.SrcLen >= 2 && !inert && ((free >= 0 && free > 0 && free < k.SrcLen) || ((free < 0 || free >= k.SrcLen) && k.DstLen >= 1)) {
		c.NontrivialStr(core.JSON(k))
		c.Count("nontrivial")
	}
	if c.WantSample() && idx%997 == 3 {
		c.Sample(map[string]any{"case": k, "ok": ok, "dst_before": showList(dst0), "dst_after": showList(dst1), "src": showList(srcContent)})
	}
	if c.Verbose {
		fmt.Printf("case: %s\nok=%v dst %s -> %s src %s\n", core.JSON(k), ok, showList(dst0), showList(dst1), showList(srcContent))
	}
}

func init() {
	core.Register(&core.Monitor{
		ID:    "C15",
		Cases: func(string) int { return c15Total() },
		Run:   c15Run,
		Rule: "exhaustive product (plus 600 large-source cases of 1..200 elements): source length 0..6 x destination length 0..6 x destination capacity {none,1..8} x source LIFO/FIFO x {0,1,2} nil elements in the source x destination form " +
			"{native, alias value, pointer to alias, pointer to native, read-only (native, pointer, alias, pointer to alias), zero Stack, int, nil, zero alias, nil pointer to alias, no-nesting destination with a Stack among the source elements} (combinations with more elements than capacity skipped), random kinds; a third of the destinations has the mutex enabled (its lock must be released again), a quarter has a history (Push, Remove, Push, Pop) so that the builtin slice capacity differs from the configured one; " +
			"recursive VerifDump snapshots of source and destination before/after. non-trivial = source length >= 2 and a live destination that is either partly filled (0 < free < len(src)) or non-empty with room; distinct = case tuple.",
		Assumptions: []string{
			"a false result although everything would fit is counted (outcome.refused-with-room) but not judged: the statement only forbids false success, partial copies under capacity shortage, and changes to inert destinations or to the source",
		},
		Floors: func(string) map[string]int64 {
			return map[string]int64{"outcome.refused-capacity": 500, "outcome.refused-inert": 1000, "nontrivial": 1000, "large-sources": 300, "self-in-source": 80}
		},
		Exhaustive: func(string) bool { return false },
	})
}
