package mon

var auxCmds = map[string]func(){}

// RegisterAux registers a helper command (vcheck aux <name>).
func RegisterAux(name string, f func()) { auxCmds[name] = f }

// RunAux runs a helper command; false if unknown.
func RunAux(name string) bool {
	f, ok := auxCmds[name]
	if ok {
		f()
	}
	return ok
}
