package mon

import (
	"bytes"
	"fmt"
	"io"
	"log"
	"reflect"
	"strings"
	"sync"

	stackage "github.com/JesseCoretta/go-stackage"
	"verifharness/core"
)

// C09 — a read-only Stack or Condition cannot be changed.

var c09Gen = TreeGen{MaxDepth: 2, MaxWidth: 4, MinWidth: 1, NilLeaves: 8, Conds: 20, CondStackExpr: 40, Aliases: 15,
	IdxOpts: true, Present: true, StackProb: 40, Mutex: 25}

func inertPush(...any) error   { return nil }
func inertValid(...any) error  { return nil }
func rejectValid(...any) error { return errPolicyRejects }
func inertLess(i, j int) bool  { return i < j }
func inertEq(any, any) error   { return nil }

// a user closure that panics (its caller recovers): whatever the library parks while the closure runs must be put back
const userPanicText = "the user's own closure panics (harness)"

func panicEq(any, any) error         { panic(userPanicText) }
func inertUnm(...any) ([]any, error) { return []any{"X"}, nil }
func inertMar(...any) error          { return nil }
func inertEval(...any) (any, error)  { return 1, nil }

// c09Settings gives a live stack a rich random configuration (deterministic in r).
func c09Settings(s stackage.Stack, r *core.Rng) {
	if r.Bool() {
		s.SetID("id-" + fmt.Sprint(r.Intn(100)))
	}
	if r.Bool() {
		s.SetCategory("cat")
	}
	if r.Chance(1, 3) {
		s.SetPushPolicy(inertPush)
	}
	if r.Chance(1, 4) {
		if r.Chance(1, 3) {
			s.SetValidityPolicy(rejectValid) // an instance its own policy currently rejects is still read-only
		} else {
			s.SetValidityPolicy(inertValid)
		}
	}
	if r.Chance(1, 4) {
		s.SetLessFunc(inertLess)
	}
	if r.Chance(1, 5) {
		if r.Chance(1, 3) {
			s.SetEqualityPolicy(panicEq)
		} else {
			s.SetEqualityPolicy(inertEq)
		}
	}
	if r.Chance(1, 5) {
		s.SetUnmarshaler(inertUnm)
	}
	if r.Chance(1, 5) {
		s.SetMarshaler(inertMar)
	}
	if r.Bool() {
		s.SetAuxiliary(stackage.Auxiliary{"a": 1})
	}
	if r.Bool() {
		s.SetLogLevel(stackage.LogLevel(1 + r.Intn(60000)))
	}
	if r.Chance(1, 4) {
		s.SetLogger("stderr")
	}
	if r.Chance(1, 3) {
		s.SetFIFO(true)
	}
	if r.Chance(1, 4) {
		s.SetNoNesting(true)
	}
}

func c09CondSettings(cd stackage.Condition, r *core.Rng) {
	if r.Bool() {
		cd.SetID("cid")
	}
	if r.Bool() {
		cd.SetCategory("ccat")
	}
	if r.Chance(1, 3) {
		cd.SetEvaluator(inertEval)
	}
	if r.Chance(1, 5) {
		if r.Chance(1, 3) {
			cd.SetEqualityPolicy(panicEq)
		} else {
			cd.SetEqualityPolicy(inertEq)
		}
	}
	if r.Chance(1, 5) {
		cd.SetUnmarshaler(inertUnm)
	}
	if r.Bool() {
		cd.SetAuxiliary(stackage.Auxiliary{"a": 1})
	}
	if r.Bool() {
		cd.SetLogLevel(stackage.LogLevel(1 + r.Intn(60000)))
	}
	if r.Chance(1, 3) {
		cd.SetParen(true)
	}
	if r.Chance(1, 3) {
		cd.SetNoPadding(true)
	}
	if r.Chance(1, 3) {
		cd.SetEncap(`"`)
	}
	if r.Chance(1, 4) {
		cd.SetNoNesting(true)
	}
}

func c09Pools() *Pools {
	return &Pools{
		Any: []any{"x", nil, 7, stackage.Or().Push("p"), stackage.Cond("k", stackage.Eq, "v"), []any{"AND", "a"}, []string{"<", ">"}, rune('|'),
			stackage.LogLevel(8), "stdout", AStack(stackage.And().Push("q")),
			stackage.List().SetNoNesting(true).Push("picky destination"), io.Writer(&bytes.Buffer{}), log.New(NullWriter{}, "app", 0)},
		Ints: []int{0, -1, 1, 2},
		Strs: []string{"x", "", "_random"},
	}
}

var (
	c09Once   sync.Once
	c09SCalls []CallSpec
	c09CCalls []CallSpec
)

func c09Enum() {
	p := c09Pools()
	c09SCalls = EnumCalls(reflect.TypeOf(&stackage.Stack{}), p)
	c09CCalls = EnumCalls(reflect.TypeOf(&stackage.Condition{}), p)
}

const c09Instances = 24

func c09Tier(tier string) (single, seqs int) {
	c09Once.Do(c09Enum)
	single = (len(c09SCalls) + len(c09CCalls)) * c09Instances
	if tier == "thorough" {
		return single * 4, 400000
	}
	return single, 80000
}

type c09Target struct {
	isCond bool
	s      stackage.Stack
	cd     stackage.Condition
	recv   reflect.Value
	desc   string
}

// c09Build builds the same configured instance from a seed (twice gives two independent twins).
func c09Build(seed uint64, isCond bool) *c09Target {
	r := core.NewRng(seed)
	t := &c09Target{isCond: isCond}
	if isCond {
		var ex any = "expr"
		switch r.Intn(3) {
		case 0:
			tr := c09Gen.Gen(r)
			st := tr.BuildStack()
			ex = st
			form := ""
			switch r.Intn(4) {
			case 1:
				ex, form = AStack(st), "{as an alias value}"
			case 2:
				a := AStack(st)
				ex, form = &a, "{as a pointer to an alias}"
			case 3:
				ex, form = XStack(st), "{as an alias with its own String}"
			}
			t.desc = "Cond(kw = " + tr.Brief() + form + ")"
		case 1:
			ex = 42
			t.desc = "Cond(kw = 42)"
		default:
			t.desc = "Cond(kw = expr)"
		}
		t.cd = stackage.Cond("kw", stackage.Eq, ex)
		c09CondSettings(t.cd, r)
		t.recv = reflect.ValueOf(&t.cd)
		return t
	}
	tr := c09Gen.Gen(r)
	if r.Chance(1, 3) {
		tr.Cap = len(tr.Kids) + r.Intn(3)
	}
	t.s = tr.BuildStack()
	c09Settings(t.s, r)
	t.desc = tr.Brief()
	t.recv = reflect.ValueOf(&t.s)
	return t
}

func (t *c09Target) take() *Snap {
	var sn *Snap
	if t.isCond {
		sn, _ = Take(t.cd)
	} else {
		sn, _ = Take(t.s)
	}
	return sn
}

func (t *c09Target) setRO(v bool) {
	if t.isCond {
		t.cd.SetReadOnly(v)
	} else {
		t.s.SetReadOnly(v)
	}
}

func (t *c09Target) isInit() bool {
	if t.isCond {
		return t.cd.IsInit()
	}
	return t.s.IsInit()
}

// c09Allowed returns the diff options describing what a documented exception may change.
func c09Allowed(method string) (DiffOpts, bool) {
	switch method {
	case "SetReadOnly", "ReadOnly":
		return DiffOpts{IgnoreOpt: roBit}, false
	case "SetErr":
		return DiffOpts{SkipRoot: []string{"err"}}, false
	case "Init":
		return DiffOpts{}, true // replaces the instance
	}
	return DiffOpts{}, false
}

// c09Foreign: the read-only instance is not the receiver but an ARGUMENT of another (writable) instance's method,
// or an ELEMENT / EXPRESSION nested inside the writable receiver. It must not change either.
func c09Foreign(c *core.Ctx, r *core.Rng) {
	roIsCond := r.Chance(1, 4)
	ro := c09Build(r.U64(), roIsCond)
	structural := !roIsCond && r.Chance(1, 3)
	if structural {
		// a read-only stack full of removable wrappers and nil gaps: the structure-rewriting methods of an
		// enclosing writable stack (Reveal, Defrag) must leave it alone
		tr := c20Gen.Gen(r)
		tr.Mutex = false
		tr.Walk(func(n *TNode) {
			if n.T == "stack" && len(n.Kids) > 1 && r.Bool() {
				n.Kids = n.Kids[:1]
			}
		})
		ro = &c09Target{s: tr.BuildStack().Push(nil, "tail"), desc: tr.Brief()}
		ro.recv = reflect.ValueOf(&ro.s)
	}
	ro.setRO(true)
	var roVal any = ro.s
	if roIsCond {
		roVal = ro.cd
	}
	form := r.Intn(4)
	formName := []string{"native", "alias", "pointer-to-alias", "pointer-to-native"}[form]
	var arg any
	switch {
	case form == 0:
		arg = roVal
	case form == 1 && roIsCond:
		arg = ACond(ro.cd)
	case form == 1:
		arg = AStack(ro.s)
	case form == 2 && roIsCond:
		a := ACond(ro.cd)
		arg = &a
	case form == 2:
		a := AStack(ro.s)
		arg = &a
	case roIsCond:
		arg = &ro.cd
	default:
		arg = &ro.s
	}
	nested := r.Chance(1, 3) || structural
	if roIsCond && r.Chance(1, 2) {
		// the read-only Condition in slot 0 of a writable parent that also holds a removable envelope: exactly where the
		// structure-rewriting calls of the parent look (and write)
		parent := stackage.And().Push(arg, stackage.And().Push(stackage.Or().Push("x", "y")), "tail")
		if r.Bool() {
			parent.SetMutex()
		}
		s0 := ro.take()
		call := []string{"Reveal", "Defrag", "Reveal+Reveal", "String+Reveal"}[r.Intn(4)]
		desc := map[string]any{"role": "slot 0 of a writable parent with a removable envelope", "read_only": "Condition " + ro.desc, "form": formName, "call": call}
		if p, msg, site := Guard(func() {
			switch call {
			case "Reveal":
				parent.Reveal()
			case "Defrag":
				parent.Defrag()
			case "Reveal+Reveal":
				parent.Reveal().Reveal()
			default:
				_ = parent.String()
				parent.Reveal()
			}
		}); p && !strings.Contains(msg, userPanicText) {
			c.Violatef("panic:foreign:"+call, desc, "%s on the parent panicked (%s): %s", call, site, msg)
			return
		}
		c.Count("foreign.condition-in-slot-0")
		if d := Diff(s0, ro.take(), DiffOpts{Shallow: true, Raw: true}); d != "" {
			c.Violatef("foreign-changed:Condition:"+call, desc, "%s on the writable parent changed the read-only Condition in its slot 0: %s", call, d)
		}
		return
	}
	// the writable receiver
	wIsCond := r.Chance(1, 4) && !nested
	w := c09Build(r.U64(), wIsCond)
	if w.isCond {
		w.cd.SetReadOnly(false)
	} else {
		w.s.SetReadOnly(false)
	}
	role := "argument"
	if nested {
		role = "nested-element"
		if r.Bool() && !roIsCond {
			w.s.Push(stackage.Cond("holder", stackage.Eq, arg))
			role = "nested-condition-expression"
		} else {
			w.s.Insert(arg, r.Intn(w.s.Len()+1))
		}
	}
	pool := c09SCalls
	if wIsCond {
		pool = c09CCalls
	}
	// pick a method; in the argument role substitute the read-only instance for every `any` parameter
	cs := c09Fresh(wIsCond, []CallSpec{pool[r.Intn(len(pool))]})[0]
	if structural {
		want := []string{"Reveal", "Defrag", "Reveal", "Reset"}[r.Intn(4)]
		for _, k := range c09Fresh(false, c09SCalls) {
			if k.Method == want {
				cs = k
				break
			}
		}
		c.Count("foreign.structural")
	}
	if !nested {
		hasAny := false
		for i, a := range cs.Args {
			if a.Type() == tAny {
				v := reflect.New(tAny).Elem()
				v.Set(reflect.ValueOf(arg))
				cs.Args[i] = v
				hasAny = true
			}
		}
		if !hasAny {
			return
		}
	}
	roKind := "Stack"
	if roIsCond {
		roKind = "Condition"
	}
	desc := map[string]any{"role": role, "read_only": roKind + " " + ro.desc, "form": formName, "call": cs.Method, "receiver": w.desc}
	s0 := ro.take()
	w0 := loggerWriterID(roVal)
	_, pan, msg, site := Invoke(w.recv, cs)
	if pan && strings.Contains(msg, userPanicText) {
		c.Count("calls.user-closure-panicked")
		pan = false
	}
	if pan {
		c.Violatef("panic:foreign:"+cs.Method, desc, "%s with a read-only %s as %s panicked (%s): %s", cs.Method, roKind, role, site, msg)
		return
	}
	c.Count("foreign." + role)
	// the flag is per instance: writable Stacks held BY the read-only instance may legitimately be changed through
	// another handle, so only the read-only instance itself is compared here (its record, its slots / expression by identity)
	if w1 := loggerWriterID(roVal); w1 != w0 {
		c.Violatef("foreign-changed:"+roKind+":logger-output", desc, "%s on another instance redirected the read-only %s's logger: it wrote to %s before, to %s now (same *log.Logger object)", cs.Method, roKind, w0, w1)
		return
	}
	if d := Diff(s0, ro.take(), DiffOpts{Shallow: true, Raw: true}); d != "" {
		c.Violatef("changed-as-"+role+":"+cs.Method, desc, "%s on another instance changed the read-only %s (%s, %s): %s", cs.Method, roKind, role, formName, d)
		return
	}
	c.NontrivialStr(fmt.Sprintf("foreign|%s|%s|%s|%s", role, roKind, formName, cs.Desc))
}

// c09Reassert: the flag is set and STAYS set - one goroutine keeps re-asserting it (SetReadOnly(true) / ReadOnly(true) on
// an instance that already is read-only) while others keep offering changes. "While the read-only flag is set, no method
// changes anything" has no gap in it for a setter that clears the bit on its way to setting it. The instances have their
// mutex enabled; the verdict is taken after all goroutines have finished.
func c09Reassert(c *core.Ctx, r *core.Rng) {
	isCond := r.Chance(1, 4)
	var before, after *Snap
	desc := map[string]any{"receiver": "Stack"}
	stackage.VerifSetHook(nil) // several goroutines: the single-goroutine lock watcher does not apply here
	rounds := r.Range(200, 600)
	var wg sync.WaitGroup
	start := make(chan struct{})
	run := func(f func(i int)) {
		wg.Add(1)
		go func() {
			defer wg.Done()
			<-start
			for i := 0; i < rounds; i++ {
				Guard(func() { f(i) })
			}
		}()
	}
	if isCond {
		cd := stackage.Cond("kw", stackage.Eq, "value").SetReadOnly(true)
		desc["receiver"] = "Condition"
		before, _ = Take(cd)
		run(func(i int) {
			if i%2 == 0 {
				cd.SetReadOnly(true)
			} else {
				cd.SetReadOnly(true).SetReadOnly(true)
			}
		})
		run(func(i int) { cd.SetKeyword("changed"); cd.SetExpression(i); cd.SetParen(true); cd.SetID("x") })
		run(func(i int) { cd.SetOperator(stackage.Ne); cd.SetEncap("'"); cd.SetNoPadding(true) })
		close(start)
		wg.Wait()
		after, _ = Take(cd)
	} else {
		s := NewStack(Kinds[r.Intn(5)], 0).Push("a", "b", "c").SetMutex().SetReadOnly(true)
		before, _ = Take(s)
		run(func(i int) {
			if i%2 == 0 {
				s.SetReadOnly(true)
			} else {
				s.ReadOnly(true)
			}
		})
		run(func(i int) { s.Push(i); s.SetID("changed"); s.SetFold(true); s.Pop() })
		run(func(i int) { s.Insert("x", 0); s.SetParen(true); s.Replace("y", 1); s.SetSymbol("&") })
		close(start)
		wg.Wait()
		after, _ = Take(s)
	}
	c.Count("re-asserted-while-hammered")
	if d := Diff(before, after, DiffOpts{}); d != "" {
		c.Violatef("changed-while-read-only-was-re-asserted:"+desc["receiver"].(string), desc, "the instance was read-only throughout (the flag was only ever set again, %d times), yet it changed: %s", rounds, d)
	}
}

// loggerWriterID identifies where an instance's logger currently writes to (type and, for pointers, address): the
// *log.Logger may be shared between instances, so "the logger stays as it was" includes its destination.
func loggerWriterID(x any) string {
	var l *log.Logger
	if s, ok := AsStack(x); ok && s.IsInit() {
		l = s.Logger()
	} else if cd, ok := AsCond(x); ok && cd.IsInit() {
		l = cd.Logger()
	}
	if l == nil {
		return "no logger"
	}
	w := l.Writer()
	if rv := reflect.ValueOf(w); rv.IsValid() && rv.Kind() == reflect.Ptr {
		return fmt.Sprintf("%T@%#x", w, rv.Pointer())
	}
	return fmt.Sprintf("%T", w)
}

// c09Others: while an instance is read-only, OTHER instances live on: they are built, reset their encapsulation and take
// new pairs, get identifiers, maps, levels and loggers, are pushed into, released and constructed anew. None of that is a
// method call on the read-only instance, so nothing observable about it changes - and when the flag is lifted the state
// is exactly what it was.
func c09Others(c *core.Ctx, r *core.Rng) {
	isCond := r.Bool()
	t := c09Build(core.Mix(uint64(c.Seed), uint64(c.Idx)), isCond)
	// the instance has itself been through a reset of its encapsulation before it was frozen
	if isCond {
		t.cd.SetEncap("[")
		t.cd.SetEncap()
		t.cd.SetEncap(`"`)
	} else {
		t.s.SetEncap("[")
		t.s.SetEncap()
		t.s.SetEncap(`"`)
	}
	if !t.isInit() {
		return
	}
	t.setRO(true)
	str := func() string {
		if isCond {
			return t.cd.String()
		}
		return t.s.String()
	}
	before, text := t.take(), str()
	desc := map[string]any{"target": t.desc}
	var did []string
	for i, n := 0, r.Range(2, 6); i < n; i++ {
		switch r.Intn(6) {
		case 0:
			o := stackage.And().Push("o1", "o2").SetEncap()
			o.SetEncap([]string{"<", ">"})
			o.SetEncap("'")
			_ = o.String()
			did = append(did, "another Stack: SetEncap(); SetEncap(<,>); SetEncap(')")
		case 1:
			o := stackage.Cond("ok", stackage.Ne, "ov").SetEncap()
			o.SetEncap([]string{"{", "}"})
			_ = o.String()
			did = append(did, "another Condition: SetEncap(); SetEncap({,})")
		case 2:
			o := stackage.List().SetID("other").SetCategory("other-cat").SetAuxiliary(map[string]any{"o": 1}).SetLogLevel(stackage.AllLogLevels).SetDelimiter("+")
			o.SetFIFO(true).SetNoPadding(true).SetParen(true)
			o.Push(1, 2, 3)
			did = append(did, "another Stack: identifiers, map, levels, options, pushes")
		case 3:
			o := stackage.Or().Push("gone")
			k := o
			o.Free()
			n2 := stackage.Basic(2).Push("new").SetID("n2")
			k.SetNoPadding(true).SetID("kept")
			_ = n2
			did = append(did, "another Stack released (a copy of its handle kept and used), a new one constructed")
		case 4:
			var o stackage.Condition
			o.Init()
			o.SetKeyword("ik").SetOperator(stackage.Ge).SetExpression(7).SetLogLevel("debug").SetID("oc")
			o.Init()
			did = append(did, "another Condition initialised, configured, initialised again")
		default:
			var o stackage.Stack
			o.Marshal("OR", "m1", []any{"CONDITION", "mk", stackage.Eq, "mv"})
			_ = o.String()
			did = append(did, "another Stack decoded by Marshal")
		}
	}
	desc["meanwhile"] = did
	after, text2 := t.take(), str()
	if d := Diff(before, after, DiffOpts{Raw: true}); d != "" || text != text2 {
		c.Violatef("changed-by-other-instances", desc, "a read-only instance changed while only OTHER instances were worked on: %s (String %q -> %q)", d, text, text2)
		return
	}
	t.setRO(false)
	ro := DiffOpts{IgnoreOpt: roBit}
	if d := Diff(before, t.take(), ro); d != "" || str() != text {
		c.Violatef("changed-by-other-instances:after-unfreeze", desc, "after the flag was lifted the state is not what it was when it was set: %s (String %q -> %q)", d, text, str())
		return
	}
	c.Count("others-at-work-while-read-only")
}

func c09Run(c *core.Ctx, idx int) {
	single, _ := c09Tier(c.Tier)
	r := c.Rng
	if idx >= single && idx%20 == 13 {
		c09Others(c, r)
		return
	}
	nS, nC := len(c09SCalls), len(c09CCalls)
	if idx < single {
		k := idx % ((nS + nC) * c09Instances)
		inst := k / (nS + nC)
		ci := k % (nS + nC)
		isCond := ci >= nS
		var cs CallSpec
		if isCond {
			cs = c09CCalls[ci-nS]
		} else {
			cs = c09SCalls[ci]
		}
		seed := core.Mix(uint64(c.Seed)+uint64(idx/((nS+nC)*c09Instances)), uint64(inst)*977+uint64(ci))
		c09One(c, seed, isCond, []CallSpec{cs})
		return
	}
	if idx%40 == 6 {
		c09Reassert(c, r)
		return
	}
	if idx%2 == 1 {
		c09Foreign(c, r)
		return
	}
	isCond := r.Chance(1, 3)
	pool := c09SCalls
	if isCond {
		pool = c09CCalls
	}
	n := r.Range(2, 5)
	var seq []CallSpec
	for i := 0; i < n; i++ {
		seq = append(seq, pool[r.Intn(len(pool))])
	}
	c09One(c, r.U64(), isCond, seq)
}

// c09Fresh re-synthesises the arguments of the given call specs from a fresh pool, so that no argument value
// (pool Stacks, Conditions, maps) is shared between cases or between the read-only instance and its writable twin.
func c09Fresh(isCond bool, seq []CallSpec) []CallSpec {
	t := reflect.TypeOf(&stackage.Stack{})
	ref := c09SCalls
	if isCond {
		t = reflect.TypeOf(&stackage.Condition{})
		ref = c09CCalls
	}
	fresh := EnumCalls(t, c09Pools())
	byDesc := map[string]int{}
	for i, cs := range ref {
		if _, ok := byDesc[cs.Desc]; !ok {
			byDesc[cs.Desc] = i
		}
	}
	out := make([]CallSpec, len(seq))
	for i, cs := range seq {
		out[i] = fresh[byDesc[cs.Desc]]
	}
	return out
}

func c09One(c *core.Ctx, seed uint64, isCond bool, seq []CallSpec) {
	twinSeq := c09Fresh(isCond, seq)
	seq = c09Fresh(isCond, seq)
	t := c09Build(seed, isCond)
	twin := c09Build(seed, isCond) // stays writable: measures whether the call would change anything
	var names []string
	for _, cs := range seq {
		names = append(names, cs.Desc)
	}
	kindTag := "Stack"
	if isCond {
		kindTag = "Condition"
	}
	desc := map[string]any{"receiver": kindTag, "instance": t.desc, "calls": names}
	t.setRO(true)
	s0 := t.take()
	held := t.cd // a second handle of the same Condition (meaningful only for isCond)
	heldSnap := func() *Snap { sn, _ := Take(held); return sn }
	w0 := twin.take()
	opts := DiffOpts{Raw: true}
	replaced := false
	roCleared := false
	for si, cs := range seq {
		o, rep := c09Allowed(cs.Method)
		opts.IgnoreOpt |= o.IgnoreOpt
		opts.SkipRoot = append(opts.SkipRoot, o.SkipRoot...)
		res, pan, msg, site := Invoke(t.recv, cs)
		if pan && strings.Contains(msg, userPanicText) {
			// the user's closure panicked and the caller (this harness) recovered: not the library's fault, but the
			// instance must be what it was
			c.Count("calls.user-closure-panicked")
			pan = false
		}
		if pan {
			c.Violatef("panic:"+kindTag+"."+cs.Method, desc, "%s on a read-only %s panicked (%s): %s", cs.Desc, kindTag, site, msg)
			return
		}
		c.Count("calls." + kindTag)
		if rep {
			replaced = true
			if isCond {
				// Init detached the handle: whatever is done to the fresh instance must not reach the read-only one, which
				// the copy of the handle taken before still designates
				fresh := t.cd
				fresh.SetLogLevel(stackage.AllLogLevels)
				fresh.SetLogger(log.New(io.Discard, "fresh", 0))
				fresh.SetKeyword("fresh").SetOperator(stackage.Ne).SetExpression("fresh-value")
				fresh.SetEncap("'").SetID("fresh-id").SetCategory("fresh-cat").SetParen(true).SetNoNesting(true)
				fresh.SetAuxiliary(stackage.Auxiliary{"fresh": true})
				fresh.SetErr(errPolicyRejects)
				if d := Diff(s0, heldSnap(), opts); d != "" {
					c.Violatef("changed-through-reinitialised-handle:"+kindTag, desc, "after Init() on one handle and setters on the fresh instance, the read-only instance (second handle) changed: %s", d)
					return
				}
				c.Count("init-then-setters-on-fresh-instance")
			}
			break
		}
		if cs.Method == "Free" {
			if len(res) != 1 || res[0].IsNil() || !t.isInit() {
				c.Violatef("Free:"+kindTag, desc, "Free on a read-only %s: result %s, IsInit=%v", kindTag, ResultDesc(res), t.isInit())
				return
			}
		}
		now := t.take()
		// a SetReadOnly that cleared the flag legitimately re-enables everything afterwards: stop judging there
		if now.S.Opt&roBit == 0 {
			if d := Diff(s0, now, opts); d != "" {
				c.Violatef("changed:"+kindTag+"."+cs.Method, desc, "%s on a read-only %s changed: %s", cs.Desc, kindTag, d)
				return
			}
			roCleared = true
			break
		}
		if d := Diff(s0, now, opts); d != "" {
			c.Violatef("changed:"+kindTag+"."+cs.Method, desc, "%s on a read-only %s changed: %s", cs.Desc, kindTag, d)
			return
		}
		if cs.Method != "Transfer" {
			// Transfer never changes its receiver; on the writable twin it could copy the twin's elements into a pool
			// Stack that an earlier call pushed INTO the twin, creating a self-containing cycle (not a tree any more)
			Invoke(twin.recv, twinSeq[si])
		}
	}
	// does the same sequence change a writable twin? (measured: the guard matters)
	guardMatters := false
	if !replaced {
		if twin.isInit() {
			if d := Diff(w0, twin.take(), DiffOpts{}); d != "" {
				guardMatters = true
			}
		} else {
			guardMatters = true // freed
		}
	}
	if replaced || roCleared {
		c.Count("ended-by-documented-exception")
	} else {
		// clearing the flag restores full mutability with the state as it was
		t.setRO(false)
		now := t.take()
		if d := Diff(s0, now, DiffOpts{IgnoreOpt: roBit, SkipRoot: opts.SkipRoot}); d != "" {
			c.Violatef("restore:"+kindTag, desc, "after clearing read-only the state differs: %s", d)
			return
		}
		if now.S.Opt&roBit != 0 {
			c.Violatef("restore:"+kindTag+":flag", desc, "SetReadOnly(false) did not clear the flag")
			return
		}
		if isCond {
			if len(opts.SkipRoot) > 0 {
				t.cd.SetErr(nil) // the sequence itself called SetErr (a documented exception): an expression is refused while an error is pending
			}
			t.cd.SetKeyword("changed")
			t.cd.SetOperator(stackage.Ne)
			t.cd.SetExpression("changed-value")
			if t.cd.Keyword() != "changed" || t.cd.Operator() != stackage.Ne || t.cd.Expression() != "changed-value" {
				c.Violatef("restore:"+kindTag+":immutable", desc, "after clearing read-only SetKeyword/SetOperator/SetExpression gave %q %v %s", t.cd.Keyword(), t.cd.Operator(), Show(t.cd.Expression()))
				return
			}
		} else {
			t.s.SetID("changed")
			if t.s.ID() != "changed" {
				c.Violatef("restore:"+kindTag+":immutable", desc, "SetID had no effect after clearing read-only")
				return
			}
		}
	}
	if guardMatters {
		c.Count("guard-matters." + kindTag)
		c.NontrivialStr(kindTag + "|" + strings.Join(names, ";") + "|" + fmt.Sprint(seed%64))
	}
	if c.WantSample() && guardMatters && c.Idx%211 == 7 {
		c.Sample(desc)
	}
}

func init() {
	core.Register(&core.Monitor{
		ID: "C09",
		Cases: func(tier string) int {
			a, b := c09Tier(tier)
			return a + b
		},
		Run: c09Run,
		Setup: func(c *core.Ctx) {
			c.Notes["stack_methods"] = fmt.Sprint(len(MethodNames(reflect.TypeOf(&stackage.Stack{}))))
			c.Notes["condition_methods"] = fmt.Sprint(len(MethodNames(reflect.TypeOf(&stackage.Condition{}))))
			c.Notes["call_variants"] = fmt.Sprintf("Stack=%d Condition=%d", len(c09SCalls), len(c09CCalls))
		},
		Rule: "every exported method of *Stack and *Condition (enumerated by reflection at run time) x argument variants (each parameter varied through its pool; variadics with 0/1/2 values; recording/nil closures) x 24 (quick) / 96 (thorough) random instances " +
			"(nested trees with Conditions/aliases, capacity, FIFO, all option bits, ID, category, delimiter, symbol, encapsulation, six policies, less function, auxiliary map, logger, log levels, mutex), invoked singly on the read-only instance; plus random 2..5-call sequences; plus foreign-role cases in which the read-only instance (native, alias, pointer forms) is an ARGUMENT of a random method of another, writable instance, or an element / Condition expression NESTED inside the writable receiver of a random method. " +
			"Oracle: recursive VerifDump snapshot before/after must be identical except the read-only bit after SetReadOnly/ReadOnly, err after SetErr and the instance after Condition.Init; Free must return an error and leave the handle initialised; " +
			"after clearing the flag the state equals the initial one and a setter takes effect. non-trivial = the same call(s) DO change a writable twin built from the same seed (measured, so the guard is known to matter); distinct = (receiver kind, call list, instance).",
		Assumptions: []string{"closures installed before the flag is set are inert (a user closure invoked by Valid/IsEqual/... may of course do anything)", "the Auxiliary map handed out by Auxiliary() is user-managed and not part of the comparison beyond identity and shallow content"},
		Floors: func(string) map[string]int64 {
			return map[string]int64{"calls.Stack": 3000, "others-at-work-while-read-only": 1000, "cases.with-bystander-goroutines": 1000, "calls.Condition": 1000, "guard-matters.Stack": 500, "guard-matters.Condition": 100, "foreign.argument": 3000, "foreign.nested-element": 1000}
		},
	})
}
