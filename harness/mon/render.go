package mon

import (
	"fmt"
	"reflect"
	"strconv"
	"strings"
	"unicode"
	"unicode/utf8"

	stackage "github.com/JesseCoretta/go-stackage"
)

// Reference renderer for C02 (and the String() reflections of C06/C12/C18): an independent implementation of
// the grammar in the property statement, working on live values whose settings are read through VerifDump.
// The second result is false when the value lies outside the deciding domain (statement silent).

// refCondense: trim blanks at both ends and collapse every run of blank/tab to one blank — rune-wise.
func refCondense(s string) string {
	s = strings.TrimSpace(s)
	var b strings.Builder
	last := false
	for _, r := range s {
		if r == ' ' || r == '\t' {
			if !last {
				b.WriteByte(' ')
			}
			last = true
			continue
		}
		last = false
		b.WriteRune(r)
	}
	return b.String()
}

func refEncap(enc [][]string, v string) string {
	for i := len(enc) - 1; i >= 0; i-- { // first pair ends up outermost
		switch len(enc[i]) {
		case 1:
			v = enc[i][0] + v + enc[i][0]
		case 2:
			v = enc[i][0] + v + enc[i][1]
		}
	}
	return v
}

func refPad(nopad bool, v string) string {
	if v == "" || nopad {
		return v
	}
	return " " + v + " "
}

// textInDomain: leaf text may contain anything, but leading/trailing white space other than blank/tab is
// outside the domain (the statement only talks about blanks), as is invalid UTF-8.
func textInDomain(s string) bool {
	if !utf8.ValidString(s) {
		return false
	}
	if s == "" {
		return true
	}
	first, _ := utf8.DecodeRuneInString(s)
	last, _ := utf8.DecodeLastRuneInString(s)
	for _, r := range []rune{first, last} {
		if unicode.IsSpace(r) && r != ' ' && r != '\t' {
			return false
		}
	}
	// interior white space other than blank/tab (NBSP, ideographic space, newline ...) is ordinary text and must be
	// reproduced verbatim; only at the very edges of a leaf is it out of domain (see above)
	return true
}

// leafText gives the canonical text of a leaf value.
func leafText(v any) (string, bool) {
	switch tv := v.(type) {
	case string:
		return tv, textInDomain(tv)
	case bool:
		return strconv.FormatBool(tv), true
	case int, int8, int16, int32, int64:
		return strconv.FormatInt(reflect.ValueOf(v).Int(), 10), true
	case uint, uint8, uint16, uint32, uint64:
		return strconv.FormatUint(reflect.ValueOf(v).Uint(), 10), true
	case float32:
		return strconv.FormatFloat(float64(tv), 'g', -1, 32), true
	case float64:
		return strconv.FormatFloat(tv, 'g', -1, 64), true
	case fmt.Stringer:
		rv := reflect.ValueOf(v)
		if rv.IsZero() {
			return "", false // zero-valued stringers: statement silent
		}
		t := tv.String()
		return t, textInDomain(t)
	}
	// a text / number / bool value of a defined type without a String method (type Attr string, type Level int) is a
	// text / number / bool value: it reads as its underlying value does
	switch rv := reflect.ValueOf(v); rv.Kind() {
	case reflect.String:
		return rv.String(), textInDomain(rv.String())
	case reflect.Bool:
		return strconv.FormatBool(rv.Bool()), true
	case reflect.Int, reflect.Int8, reflect.Int16, reflect.Int32, reflect.Int64:
		return strconv.FormatInt(rv.Int(), 10), true
	case reflect.Uint, reflect.Uint8, reflect.Uint16, reflect.Uint32, reflect.Uint64:
		return strconv.FormatUint(rv.Uint(), 10), true
	case reflect.Float64:
		return strconv.FormatFloat(rv.Float(), 'g', -1, 64), true
	case reflect.Float32:
		return strconv.FormatFloat(rv.Float(), 'g', -1, 32), true
	}
	return "", false
}

func opInRange(op stackage.Operator) bool {
	if p, ok := op.(*stackage.ComparisonOperator); ok && p != nil {
		op = *p // the built-in operator type held by reference is the built-in operator type
	}
	if co, ok := op.(stackage.ComparisonOperator); ok {
		return 1 <= int(co) && int(co) <= 6
	}
	return true
}

// RefCondValid is the validity rule of C06.
func RefCondValid(kw string, op stackage.Operator, ex any) bool {
	return kw != "" && op != nil && opInRange(op) && ex != nil
}

// RefRenderCond renders a Condition by the C06 grammar.
func RefRenderCond(c stackage.Condition) (string, bool) {
	sn, ok := stackage.VerifDump(c)
	if !ok || sn.Nil || !sn.HasCfg {
		return "", true
	}
	if sn.Fn[2] != 0 || sn.Fn[3] != 0 { // validity / presentation policy installed: not this grammar
		return "", false
	}
	if !RefCondValid(sn.Kw, sn.Op, sn.Ex) {
		return "", true
	}
	var text string
	if st, isStack := AsStack(sn.Ex); isStack {
		t, ok := RefRenderStack(st)
		if !ok {
			return "", false
		}
		text = t
	} else if ic, isCond := AsCond(sn.Ex); isCond {
		t, ok := RefRenderCond(ic)
		if !ok {
			return "", false
		}
		text = t
	} else {
		t, ok := leafText(sn.Ex)
		if !ok {
			return "", false
		}
		text = t
	}
	nopad := sn.Opt&4 != 0
	p := " "
	if nopad {
		p = ""
	}
	s := sn.Kw + p + sn.Op.String() + p + refEncap(sn.Enc, text)
	if sn.Opt&1 != 0 {
		s = "(" + p + s + p + ")"
	}
	return s, true
}

var kindWord = map[uint8]string{1: "AND", 2: "OR", 3: "NOT", 4: "LIST", 6: "BASIC"}

// RefRenderStack renders a Stack by the C02 grammar.
func RefRenderStack(s stackage.Stack) (string, bool) {
	sn, ok := stackage.VerifDump(s)
	if !ok || sn.Nil || !sn.Slot0Cfg {
		return "", true
	}
	if sn.Fn[2] != 0 || sn.Fn[3] != 0 {
		return "", false
	}
	word, known := kindWord[sn.Typ]
	if !known || word == "BASIC" {
		return "", true
	}
	paren, fold, nopad, lonce := sn.Opt&1 != 0, sn.Opt&2 != 0, sn.Opt&4 != 0, sn.Opt&8 != 0
	isList := word == "LIST"
	if fold {
		word = strings.ToLower(word)
	}
	var parts []string
	for _, e := range sn.Slots {
		var part string
		if e == nil {
			return "", false // nil elements: statement silent
		}
		if x, isStack := AsStack(e); isStack {
			if !x.IsInit() {
				return "", false
			}
			r, ok := RefRenderStack(x)
			if !ok {
				return "", false
			}
			xs, _ := stackage.VerifDump(x)
			if r != "" && xs.Typ == 3 && xs.Sym == "" {
				w := "NOT"
				if xs.Opt&2 != 0 {
					w = "not"
				}
				r = w + " " + r
			}
			part = r
		} else if cd, isCond := AsCond(e); isCond {
			if !cd.IsInit() {
				return "", false
			}
			r, ok := RefRenderCond(cd)
			if !ok {
				return "", false
			}
			part = r
		} else {
			t, ok := leafText(e)
			if !ok {
				return "", false
			}
			part = refPad(nopad, refEncap(sn.Enc, t))
		}
		if part != "" {
			parts = append(parts, part)
		}
	}
	var body string
	switch {
	case lonce:
		if !isList {
			if sn.Sym != "" {
				body = sn.Sym
			} else {
				body = refPad(nopad, word)
			}
			if len(parts) == 0 {
				if paren {
					return "", false // "(&)": operator without operands inside parentheses, statement silent
				}
				body = "" // an empty non-parenthetical stack contributes nothing, no dangling operator
			}
		}
		body += strings.Join(parts, "")
	case isList:
		j := sn.Ljc
		if j == "" && !nopad {
			j = " "
		}
		body = strings.Join(parts, j)
	case sn.Sym != "":
		j := sn.Sym
		if !nopad {
			j = " " + j + " "
		}
		body = strings.Join(parts, j)
	default:
		body = strings.Join(parts, " "+word+" ")
	}
	p := " "
	if nopad {
		p = ""
	}
	body = p + body + p
	if paren {
		body = "(" + p + body + p + ")"
	}
	return refCondense(body), true
}
