package mon

import (
	"errors"
	"fmt"
	"reflect"
	"strings"

	stackage "github.com/JesseCoretta/go-stackage"
	"verifharness/core"
)

// C06 — a Condition holds exactly what it accepted, and validity gates its rendering.

// EnumOp is a user-defined operator enumeration whose ZERO value is a perfectly good operator.
type EnumOp uint8

func (o EnumOp) String() string  { return []string{"~=", ":>"}[o%2] }
func (o EnumOp) Context() string { return "enum" }

// UnitOp is a user-defined operator carried by an empty struct.
type UnitOp struct{}

func (UnitOp) String() string  { return "=~" }
func (UnitOp) Context() string { return "unit" }

// IntOp is a user-defined operator of a numeric kind (its numeric value has nothing to do with the built-in range 1..6).
type IntOp int

func (o IntOp) String() string  { return "op" + fmt.Sprint(int(o)) }
func (o IntOp) Context() string { return "int-op" }

type c06PtrErr struct{}

func (*c06PtrErr) Error() string { return "pointer-typed error" }

// c06DeepCond nests n valid Conditions directly in one another.
func c06DeepCond(n int) stackage.Condition {
	cur := stackage.Cond("k0", stackage.Eq, "v")
	for i := 1; i < n; i++ {
		cur = stackage.Cond(fmt.Sprintf("k%d", i), stackage.Ne, cur)
	}
	return cur
}

type c06Model struct {
	kw    string
	op    stackage.Operator
	ex    any
	err   error
	nnest bool
}

type c06Arg struct {
	desc string
	v    any
}

var c06Err = errors.New("injected error")

func c06KwArgs() []c06Arg {
	return []c06Arg{{`"kw2"`, "kw2"}, {`"other"`, "other"}, {`""`, ""}, {"Name(nm)", Name("nm")}, {"5", 5}, {"nil", nil}, {"3.5", 3.5},
		{"(*Name)(nil)", (*Name)(nil)}, {"&Name(pn)", func() any { n := Name("pn"); return &n }()}}
}

func c06OpArgs() []c06Arg {
	return []c06Arg{{"Eq", stackage.Eq}, {"Ne", stackage.Ne}, {"Ge", stackage.Ge}, {"nil", nil}, {`UserOp{"~=","ctx"}`, UserOp{"~=", "ctx"}},
		{`UserOp{"","ctx"}`, UserOp{"", "ctx"}}, {`UserOp{"x",""}`, UserOp{"x", ""}}, {"ComparisonOperator(0)", stackage.ComparisonOperator(0)}, {"ComparisonOperator(9)", stackage.ComparisonOperator(9)},
		{"(*ComparisonOperator)(nil)", (*stackage.ComparisonOperator)(nil)}, {"EnumOp(0)", EnumOp(0)}, {"EnumOp(1)", EnumOp(1)}, {"UnitOp{}", UnitOp{}},
		{"EnumOp(42)", EnumOp(42)}, {`UserOp{">=","comparison"}`, UserOp{">=", "comparison"}}, {`UserOp{"=","comparison"}`, UserOp{"=", "comparison"}}, {"&ComparisonOperator(Le)", c06OpPtr(5)}, {"&ComparisonOperator(9)", c06OpPtr(9)}, {"&ComparisonOperator(0)", c06OpPtr(0)}, {"IntOp(0)", IntOp(0)}, {"IntOp(42)", IntOp(42)}, {"IntOp(-7)", IntOp(-7)}}
}

func c06ExArgs() []c06Arg {
	a := AStack(stackage.Or().Push("p", "q"))
	return []c06Arg{{`"v"`, "v"}, {`"w w"`, "w w"}, {`""`, ""}, {"nil", nil}, {"42", 42}, {"3.5", 3.5}, {"true", true},
		{"Stack", stackage.And().Push("x", "y")}, {"AStack", AStack(stackage.Or().Push("z"))}, {"SStack", SStack(stackage.List().Push(1, 2))}, {"*AStack", &a},
		{"Condition", stackage.Cond("ik", stackage.Lt, 5)}, {"Name(n)", Name("n")}, {"NamedStr(ns)", NamedStr("ns")}, {"NamedInt(7)", NamedInt(7)}, {"NamedBool(true)", NamedBool(true)}, {"NamedFloat(2.5)", NamedFloat(2.5)}, {"empty Stack", stackage.Not()},
		{"(*Name)(nil)", (*Name)(nil)}, {"25 Conditions nested in one another", c06DeepCond(25)},
		{"Stack its own validity policy rejects", stackage.And().Push("x").SetValidityPolicy(func(...any) error { return errPolicyRejects })}, {"[]string{a}", []string{"a"}}, {"[]string{b,c}", []string{"b", "c"}}, {"map", map[string]int{"k": 1}}, {"struct{[]int}", struct{ L []int }{[]int{1}}}}
}

func c06OpPtr(code int) *stackage.ComparisonOperator {
	op := stackage.ComparisonOperator(code)
	return &op
}

func isStackVal(v any) bool {
	_, ok := AsStack(v)
	return ok
}

func opAcceptable(op stackage.Operator) bool {
	if op == nil {
		return false
	}
	if v := reflect.ValueOf(op); v.Kind() == reflect.Ptr && v.IsNil() {
		return false // a nil operator, merely typed
	}
	return op.String() != "" && op.Context() != ""
}

type c06Step struct {
	desc  string
	apply func(cd *stackage.Condition, m *c06Model) (component string, accepted bool)
}

func c06SetKw(a c06Arg) c06Step {
	return c06Step{"SetKeyword(" + a.desc + ")", func(cd *stackage.Condition, m *c06Model) (string, bool) {
		cd.SetKeyword(a.v)
		switch tv := a.v.(type) {
		case string:
			if tv == "" {
				// the statement does not say whether an empty keyword is accepted: follow the code either way
				if cd.Keyword() == "" {
					m.kw = ""
				}
				return "kw", cd.Keyword() == ""
			}
			m.kw = tv
			return "kw", true
		case fmt.Stringer:
			if v := reflect.ValueOf(a.v); v.Kind() == reflect.Ptr && v.IsNil() {
				return "kw", false // a typed nil pointer: nothing to call String on - rejected, and no panic
			}
			m.kw = tv.String()
			return "kw", true
		}
		return "kw", false
	}}
}

func c06SetOp(a c06Arg) c06Step {
	return c06Step{"SetOperator(" + a.desc + ")", func(cd *stackage.Condition, m *c06Model) (string, bool) {
		var op stackage.Operator
		if a.v != nil {
			op = a.v.(stackage.Operator)
		}
		cd.SetOperator(op)
		if opAcceptable(op) {
			m.op = op
			return "op", true
		}
		return "op", false
	}}
}

func c06SetEx(a c06Arg) c06Step {
	return c06Step{"SetExpression(" + a.desc + ")", func(cd *stackage.Condition, m *c06Model) (string, bool) {
		cd.SetExpression(a.v)
		if a.v == nil || a.v == "" || (m.nnest && isStackVal(a.v)) || m.err != nil {
			return "ex", false
		}
		m.ex = a.v
		return "ex", true
	}}
}

func c06Misc(which int) c06Step {
	switch which {
	case 0:
		return c06Step{"SetNoNesting()", func(cd *stackage.Condition, m *c06Model) (string, bool) {
			cd.SetNoNesting()
			m.nnest = !m.nnest
			return "", false
		}}
	case 1:
		return c06Step{"SetErr(toggle)", func(cd *stackage.Condition, m *c06Model) (string, bool) {
			if m.err == nil {
				m.err = c06Err
			} else {
				m.err = nil
			}
			cd.SetErr(m.err)
			return "", false
		}}
	case 5:
		// an error value that is a nil pointer inside a non-nil interface (what a function declared to return *T hands
		// back): Err() is non-nil, so expressions are refused like under any other error
		return c06Step{"SetErr((*c06PtrErr)(nil))", func(cd *stackage.Condition, m *c06Model) (string, bool) {
			var pe *c06PtrErr
			m.err = pe
			cd.SetErr(pe)
			return "", false
		}}
	case 2:
		return c06Step{"SetNoPadding()", func(cd *stackage.Condition, m *c06Model) (string, bool) { cd.SetNoPadding(); return "", false }}
	case 3:
		return c06Step{"SetParen()", func(cd *stackage.Condition, m *c06Model) (string, bool) { cd.SetParen(); return "", false }}
	case 6:
		return c06Step{"SetParen(false)", func(cd *stackage.Condition, m *c06Model) (string, bool) { cd.SetParen(false); return "", false }}
	case 7:
		return c06Step{"SetNoPadding(false)", func(cd *stackage.Condition, m *c06Model) (string, bool) { cd.SetNoPadding(false); return "", false }}
	case 8:
		return c06Step{"SetNoNesting(false)", func(cd *stackage.Condition, m *c06Model) (string, bool) {
			cd.SetNoNesting(false)
			m.nnest = false
			return "", false
		}}
	case 9:
		return c06Step{"SetParen(true)", func(cd *stackage.Condition, m *c06Model) (string, bool) { cd.SetParen(true); return "", false }}
	case 4:
		return c06Step{`SetEncap(")`, func(cd *stackage.Condition, m *c06Model) (string, bool) { cd.SetEncap(`"`); return "", false }}
	}
	return c06Step{"SetEncap()", func(cd *stackage.Condition, m *c06Model) (string, bool) { cd.SetEncap(); return "", false }}
}

// c06ReInit: Init() on a live Condition detaches THIS handle; a copy of the handle taken earlier (and the same Condition
// held by a Stack) keeps answering with what it had accepted.
func c06ReInit(c *core.Ctx, log *[]string) c06Step {
	return c06Step{"copy handle; Init()", func(cd *stackage.Condition, m *c06Model) (string, bool) {
		held := *cd
		parent := stackage.And().Push(held, "sibling")
		before, _ := Take(held)
		pbefore, _ := Take(parent)
		cd.Init()
		*m = c06Model{}
		cd.SetKeyword("fresh")
		m.kw = "fresh"
		after, _ := Take(held)
		pafter, _ := Take(parent)
		if d := Diff(before, after, DiffOpts{}); d != "" {
			c.Violate("second-handle:Init", "a copy of the handle taken before Init() changed: "+d+" after ["+strings.Join(*log, "; ")+"]", map[string]any{"calls": *log})
		} else if d := Diff(pbefore, pafter, DiffOpts{}); d != "" {
			c.Violate("second-handle:Init", "a Stack holding the Condition changed when another handle was re-initialised: "+d+" after ["+strings.Join(*log, "; ")+"]", map[string]any{"calls": *log})
		}
		c.Count("re-init-with-second-handle")
		return "", false
	}}
}

// c06Others: other, unrelated instances go through resets of their encapsulation and take new pairs (so does this one,
// first): what this Condition reads as is its own business.
func c06Others(c *core.Ctx, log *[]string) c06Step {
	return c06Step{"SetEncap(); SetEncap(\"); (other instances reset and re-encapsulate)", func(cd *stackage.Condition, m *c06Model) (string, bool) {
		cd.SetEncap()
		cd.SetEncap(`"`)
		before := cd.String()
		kw, op, ex := cd.Keyword(), cd.Operator(), cd.Expression()
		o := stackage.Cond("other", stackage.Ne, "ov").SetEncap()
		o.SetEncap([]string{"<", ">"})
		var o2 stackage.Condition
		o2.Init()
		o2.SetEncap()
		o2.SetEncap("'")
		os := stackage.And().Push("z").SetEncap()
		os.SetEncap([]string{"{", "}"})
		if after := cd.String(); after != before || cd.Keyword() != kw || !SameValue(cd.Operator(), op) || !SameValue(cd.Expression(), ex) {
			c.Violate("changed-by-other-instances", fmt.Sprintf("String() was %q and is %q after OTHER instances reset their encapsulation and took new pairs; after [%s]", before, after, strings.Join(*log, "; ")), map[string]any{"calls": *log})
		}
		c.Count("other-instances-in-between")
		return "", false
	}}
}

// the 10-symbol alphabet of the exhaustive part
func c06Symbol(i int) c06Step {
	switch i {
	case 0:
		return c06SetKw(c06Arg{`"k2"`, "k2"})
	case 1:
		return c06SetKw(c06Arg{"5", 5})
	case 2:
		return c06SetOp(c06Arg{"Ne", stackage.Ne})
	case 3:
		return c06SetOp(c06Arg{"nil", nil})
	case 4:
		return c06SetOp(c06Arg{`UserOp{"","ctx"}`, UserOp{"", "ctx"}})
	case 5:
		return c06SetEx(c06Arg{`"e2"`, "e2"})
	case 6:
		return c06SetEx(c06Arg{`""`, ""})
	case 7:
		return c06SetEx(c06Arg{"Stack", stackage.And().Push("sx", "sy")})
	case 8:
		return c06Misc(0)
	}
	return c06Misc(1)
}

func c06Tier(tier string) (maxLen, exh, random int) {
	cnt := func(L int) int {
		n, p := 0, 1
		for i := 0; i <= L; i++ {
			n += p
			p *= 10
		}
		return n
	}
	if tier == "thorough" {
		return 5, cnt(5) * 3, 10000000
	}
	return 3, cnt(3) * 3, 400000
}

func c06Start(kind int, r *core.Rng) (stackage.Condition, *c06Model, string) {
	m := &c06Model{}
	var cd stackage.Condition
	switch kind {
	case 0:
		cd = stackage.Cond("kw", stackage.Eq, "v")
		m.kw, m.op, m.ex = "kw", stackage.Eq, "v"
		return cd, m, `Cond("kw",Eq,"v")`
	case 1:
		cd.Init()
		return cd, m, "Init()"
	}
	// Cond with random (possibly rejected) arguments; the constructor records Valid() as Err
	kws, ops, exs := c06KwArgs(), c06OpArgs(), c06ExArgs()
	ka, oa, ea := kws[r.Intn(len(kws))], ops[r.Intn(len(ops))], exs[r.Intn(len(exs))]
	var op stackage.Operator
	if oa.v != nil {
		op = oa.v.(stackage.Operator)
	}
	cd = stackage.Cond(ka.v, op, ea.v)
	switch tv := ka.v.(type) {
	case string:
		m.kw = tv
	case fmt.Stringer:
		if v := reflect.ValueOf(ka.v); !(v.Kind() == reflect.Ptr && v.IsNil()) {
			m.kw = tv.String()
		}
	}
	if opAcceptable(op) {
		m.op = op
	}
	if ea.v != nil && ea.v != "" {
		m.ex = ea.v
	}
	if !RefCondValid(m.kw, m.op, m.ex) {
		m.err = errors.New("some validity error") // identity unknown: only nil-ness is compared for this one
	}
	return cd, m, fmt.Sprintf("Cond(%s,%s,%s)", ka.desc, oa.desc, ea.desc)
}

func c06Check(c *core.Ctx, cd stackage.Condition, m *c06Model, log []string, last string) bool {
	fail := func(key, f string, a ...any) bool {
		c.Violate(key, fmt.Sprintf(f, a...)+" after ["+strings.Join(log, "; ")+"]", map[string]any{"calls": log})
		return false
	}
	if got := cd.Keyword(); got != m.kw {
		return fail("Keyword:"+last, "Keyword()=%q, model %q", got, m.kw)
	}
	if got := cd.Operator(); !SameValue(got, m.op) {
		return fail("Operator:"+last, "Operator()=%v, model %v", got, m.op)
	}
	if got := cd.Expression(); !SameValue(got, m.ex) {
		return fail("Expression:"+last, "Expression()=%s, model %s", Show(got), Show(m.ex))
	}
	if got := cd.Err(); (got == nil) != (m.err == nil) || (m.err == c06Err && got != c06Err) {
		return fail("Err:"+last, "Err()=%v, model %v", got, m.err)
	}
	wantValid := RefCondValid(m.kw, m.op, m.ex)
	var verr error
	var str string
	if p, msg, site := Guard(func() { verr = cd.Valid(); str = cd.String() }); p {
		return fail("panic:"+site, "Valid/String panicked: %s", msg)
	}
	if (verr == nil) != wantValid {
		return fail("Valid:"+last, "Valid()=%v but keyword=%q operator=%v expression=%s", verr, m.kw, m.op, Show(m.ex))
	}
	if (str == "") != (verr != nil) {
		return fail("String-vs-Valid", "String()=%q while Valid()=%v", str, verr)
	}
	if want, ok := RefRenderCond(cd); ok {
		if str != want {
			return fail("String:"+last, "String()=%q, grammar gives %q", str, want)
		}
		c.Count("strings-compared")
	} else {
		c.Count("strings-out-of-domain")
	}
	return true
}

func c06Run(c *core.Ctx, idx int) {
	maxLen, exh, _ := c06Tier(c.Tier)
	r := c.Rng
	var steps []c06Step
	startKind := 2
	if idx < exh {
		startKind = idx % 3
		for _, s := range decodeSeq(idx/3, 10, maxLen) {
			steps = append(steps, c06Symbol(s))
		}
		c.Count("histories.exhaustive")
	} else {
		startKind = r.Intn(3)
		kws, ops, exs := c06KwArgs(), c06OpArgs(), c06ExArgs()
		for i, n := 0, r.Range(3, 12); i < n; i++ {
			switch r.Intn(10) {
			case 0, 1:
				steps = append(steps, c06SetKw(kws[r.Intn(len(kws))]))
			case 2, 3, 4:
				steps = append(steps, c06SetOp(ops[r.Intn(len(ops))]))
			case 5, 6, 7:
				steps = append(steps, c06SetEx(exs[r.Intn(len(exs))]))
			default:
				steps = append(steps, c06Misc(r.Intn(11)))
			}
		}
		c.Count("histories.random")
	}
	var cd stackage.Condition
	var m *c06Model
	var first string
	if p, msg, site := Guard(func() { cd, m, first = c06Start(startKind, r) }); p {
		c.Violatef("panic:"+site+":Cond", map[string]any{"start": startKind}, "constructor panicked: %s", msg)
		return
	}
	log := []string{first}
	if !c06Check(c, cd, m, log, "start") {
		return
	}
	if idx >= exh && r.Chance(1, 5) && len(steps) > 2 {
		at := r.Range(1, len(steps)-1)
		steps = append(steps[:at], append([]c06Step{c06ReInit(c, &log)}, steps[at:]...)...)
	}
	if idx >= exh && r.Chance(1, 5) && len(steps) > 1 {
		at := r.Range(1, len(steps))
		steps = append(steps[:at], append([]c06Step{c06Others(c, &log)}, steps[at:]...)...)
	}
	accepted := map[string]bool{}
	nontrivial := false
	for _, st := range steps {
		log = append(log, st.desc)
		var comp string
		var acc bool
		if p, msg, site := Guard(func() { comp, acc = st.apply(&cd, m) }); p {
			c.Violatef("panic:"+site+":"+strings.SplitN(st.desc, "(", 2)[0], map[string]any{"calls": log}, "%s panicked: %s after [%s]", st.desc, msg, strings.Join(log, "; "))
			return
		}
		name := strings.SplitN(st.desc, "(", 2)[0]
		if comp != "" {
			if acc {
				accepted[comp] = true
				c.Count("accepted." + comp)
			} else {
				c.Count("rejected." + comp)
				if accepted[comp] || (comp == "kw" && m.kw != "") || (comp == "op" && m.op != nil) || (comp == "ex" && m.ex != nil) {
					nontrivial = true
				}
			}
		}
		if !c06Check(c, cd, m, log, name) {
			return
		}
	}
	if nontrivial {
		c.NontrivialStr(strings.Join(log, ";"))
		c.Count("histories.accepted-then-rejected")
	}
	if c.WantSample() && nontrivial && idx%503 == 1 {
		c.Sample(map[string]any{"calls": log, "String": cd.String(), "Valid": errText(cd.Valid())})
	}
}

func init() {
	core.Register(&core.Monitor{
		ID: "C06",
		Cases: func(tier string) int {
			_, e, r := c06Tier(tier)
			return e + r
		},
		Run: c06Run,
		Rule: "exhaustive: every setter history of length <= 3 (quick) / <= 5 (thorough) over a 10-symbol alphabet {SetKeyword(string|int), SetOperator(Ne|nil|empty-text), SetExpression(string|\"\"|Stack), SetNoNesting toggle, SetErr toggle} from three starts (valid Cond(...), Init(), Cond with random possibly-rejected arguments); " +
			"random: 3..12 calls drawing keywords (string, empty, stringer, int, nil), operators (built-in, nil, user-defined, empty text, empty context, out-of-range built-ins), expressions (strings, empty, nil, numbers, bool, native/alias/pointer Stacks, Condition, stringer, empty Stack) and option/SetErr calls. " +
			"After every call Keyword/Operator/Expression/Err are compared with a state machine of the acceptance rules, Valid()==nil with the validity rule, String()=='' <=> Valid()!=nil and String() with the reference grammar. " +
			"non-trivial = the history offers a rejected value for a component that already held an accepted one; distinct = the literal history.",
		Assumptions: []string{"SetKeyword(\"\") may or may not be accepted (statement silent): the model follows the code", "typed nil pointers as expression are not offered (C08 covers their safety)", "no validity/presentation policy installed (C14)"},
		Floors: func(string) map[string]int64 {
			return map[string]int64{"rejected.op": 1000, "other-instances-in-between": 10000, "cases.with-bystander-goroutines": 5000, "rejected.ex": 1000, "accepted.ex": 1000, "histories.accepted-then-rejected": 1000, "strings-compared": 10000}
		},
	})
}
