package mon

import (
	"fmt"
	"strings"
	"sync"
	"sync/atomic"
	"time"

	stackage "github.com/JesseCoretta/go-stackage"
	"verifharness/core"
)

// C20 — Reveal only removes redundant wrappers.

// rNode is the live structure as observed through the public API (+ VerifDump for identity).
type rNode struct {
	typ   string // stack | cond | leaf
	id    uintptr
	kind  string
	paren bool
	kids  []*rNode // stack elements / cond expression (one kid) when it is a stack or cond
	val   any      // leaf value (also a cond's non-container expression)
	kw    string
	op    string
}

func describeLive(v any, depth int) *rNode {
	if depth > 40 {
		return &rNode{typ: "leaf", val: "<too deep>"}
	}
	if s, ok := AsStack(v); ok && s.IsInit() {
		d, _ := stackage.VerifDump(s)
		n := &rNode{typ: "stack", id: d.HdrAddr, kind: s.Kind(), paren: s.IsParen()}
		for _, e := range d.Slots {
			n.kids = append(n.kids, describeLive(e, depth+1))
		}
		return n
	}
	if c, ok := AsCond(v); ok && c.IsInit() {
		d, _ := stackage.VerifDump(c)
		n := &rNode{typ: "cond", id: d.CfgAddr, paren: c.IsParen(), kw: c.Keyword()}
		if op := c.Operator(); op != nil {
			n.op = op.String()
		}
		n.kids = []*rNode{describeLive(c.Expression(), depth+1)}
		return n
	}
	return &rNode{typ: "leaf", val: v}
}

func (n *rNode) depth() int {
	d := 0
	for _, k := range n.kids {
		if kd := k.depth(); kd > d {
			d = kd
		}
	}
	if n.typ == "stack" {
		d++
	}
	return d
}

func (n *rNode) leafSeq(out *[]string) {
	switch n.typ {
	case "leaf":
		*out = append(*out, "L:"+Show(n.val))
	case "cond":
		*out = append(*out, fmt.Sprintf("C:%s %s", n.kw, n.op))
	}
	for _, k := range n.kids {
		k.leafSeq(out)
	}
}

func (n *rNode) collect(ids map[uintptr]string) {
	if n.typ == "stack" && (n.paren || strings.EqualFold(n.kind, "NOT")) {
		ids[n.id] = n.kind
	}
	if n.typ == "cond" && n.paren {
		ids[n.id] = "cond"
	}
	for _, k := range n.kids {
		k.collect(ids)
	}
}

func (n *rNode) has(id uintptr) bool {
	if n.id == id && n.typ != "leaf" {
		return true
	}
	for _, k := range n.kids {
		if k.has(id) {
			return true
		}
	}
	return false
}

// removable: a non-parenthetical non-NOT stack with exactly one non-parenthetical Stack/Condition child
func (n *rNode) removable() bool {
	return n.typ == "stack" && !n.paren && !strings.EqualFold(n.kind, "NOT") && len(n.kids) == 1 &&
		(((n.kids[0].typ == "stack" || n.kids[0].typ == "cond") && !n.kids[0].paren) || zeroInstance(n.kids[0]))
}

// zeroInstance: a never-initialised native Stack / Condition value. Whether that counts as "a Stack or Condition child"
// of an envelope is not said; the unwrapped form treats it as one, so both readings reduce to the same form.
func zeroInstance(n *rNode) bool {
	if n.typ != "leaf" {
		return false
	}
	switch tv := n.val.(type) {
	case stackage.Stack:
		return tv.IsZero()
	case stackage.Condition:
		return tv.IsZero()
	}
	return false
}

// normalForm: fully unwrapped form (root kept).
func normalForm(n *rNode) *rNode {
	c := *n
	c.kids = nil
	for _, k := range n.kids {
		k = normalForm(k)
		for k.removable() {
			k = k.kids[0]
		}
		c.kids = append(c.kids, k)
	}
	return &c
}

func sameForm(a, b *rNode, path string) string {
	if a.typ != b.typ {
		return fmt.Sprintf("%s: %s vs %s", path, a.typ, b.typ)
	}
	switch a.typ {
	case "leaf":
		if !SameValue(a.val, b.val) {
			return fmt.Sprintf("%s: leaf %s vs %s", path, Show(a.val), Show(b.val))
		}
		return ""
	case "stack":
		if a.id != b.id || a.kind != b.kind || a.paren != b.paren {
			return fmt.Sprintf("%s: stack %s(paren=%v,#%x) vs %s(paren=%v,#%x)", path, a.kind, a.paren, a.id, b.kind, b.paren, b.id)
		}
	case "cond":
		if a.id != b.id || a.kw != b.kw || a.op != b.op || a.paren != b.paren {
			return fmt.Sprintf("%s: condition %s %s vs %s %s", path, a.kw, a.op, b.kw, b.op)
		}
	}
	if len(a.kids) != len(b.kids) {
		return fmt.Sprintf("%s: %d vs %d children", path, len(a.kids), len(b.kids))
	}
	for i := range a.kids {
		if d := sameForm(a.kids[i], b.kids[i], fmt.Sprintf("%s/%d", path, i)); d != "" {
			return d
		}
	}
	return ""
}

func (n *rNode) brief() string {
	switch n.typ {
	case "leaf":
		return Show(n.val)
	case "cond":
		p := ""
		if n.paren {
			p = "(paren)"
		}
		return fmt.Sprintf("Cond%s[%s %s %s]", p, n.kw, n.op, n.kids[0].brief())
	}
	var ks []string
	for _, k := range n.kids {
		ks = append(ks, k.brief())
	}
	p := ""
	if n.paren {
		p = "(paren)"
	}
	return n.kind + p + "[" + strings.Join(ks, " ") + "]"
}

type reentrantLock struct{ id uintptr }

var c20Gen = TreeGen{MaxDepth: 6, MaxWidth: 3, MinWidth: 0, NilLeaves: 6, Conds: 20, CondStackExpr: 60, CondCondExpr: 5, Aliases: 15, StackProb: 70, Mutex: 35, IdxOpts: true}

func c20Tier(tier string) (L, exh, random int) {
	cnt := func(L int) int {
		n, p := 0, 1
		for i := 1; i <= L; i++ {
			p *= 10
			n += p
		}
		return n * 3
	}
	if tier == "thorough" {
		return 5, cnt(5), 10000000
	}
	return 4, cnt(4), 200000
}

// c20Chain builds chain number h: links over {AND,OR,NOT,LIST,BASIC}x{plain,paren}, ending in a leaf / Condition / 2-element stack.
func c20Chain(h int, r *core.Rng) *TNode {
	ending := h % 3
	h /= 3
	L, p := 1, 10
	for h >= p {
		h -= p
		p *= 10
		L++
	}
	var end *TNode
	switch ending {
	case 0:
		end = &TNode{T: "leaf", Leaf: &LeafDesc{Tag: "str", S: "leaf"}}
	case 1:
		end = &TNode{T: "cond", Kw: "k", Op: &OpDesc{Code: 1}, Expr: &TNode{T: "leaf", Leaf: &LeafDesc{Tag: "str", S: "v"}}, Paren: r.Chance(1, 4)}
	default:
		end = &TNode{T: "stack", Kind: Kinds[r.Intn(5)], Paren: r.Chance(1, 4), Kids: []*TNode{
			{T: "leaf", Leaf: &LeafDesc{Tag: "str", S: "p"}}, {T: "leaf", Leaf: &LeafDesc{Tag: "str", S: "q"}}}}
	}
	cur := end
	for i := 0; i < L; i++ {
		link := h % 10
		h /= 10
		cur = &TNode{T: "stack", Kind: Kinds[link%5], Paren: link >= 5, Kids: []*TNode{cur}, Mutex: r.Chance(1, 3), Neg: r.Chance(1, 4), Fwd: r.Chance(1, 4), Fold: r.Chance(1, 4)}
		if cur.Kind != "LIST" && r.Chance(1, 4) {
			cur.Sym = "!"
		}
	}
	// the outermost link is the root's only element; the root adds siblings so slot arithmetic is exercised
	root := &TNode{T: "stack", Kind: "AND", Mutex: r.Chance(1, 3), Neg: r.Chance(1, 4), Fwd: r.Chance(1, 3), Kids: []*TNode{{T: "leaf", Leaf: &LeafDesc{Tag: "str", S: "first"}}, cur, {T: "leaf", Leaf: &LeafDesc{Tag: "str", S: "last"}}}}
	if r.Bool() {
		root.Kids = root.Kids[1:]
	}
	return root
}

func init() {
	extraLeaf["zero-stack"] = func(*LeafDesc) any { return stackage.Stack{} }
	extraLeaf["unhashable"] = func(l *LeafDesc) any {
		switch l.N {
		case 0:
			return []string{"s1", "s2"}
		case 1:
			return map[string]int{"k": 1}
		case 2:
			return func() {}
		}
		return struct{ V []int }{[]int{1, 2}}
	}
	extraLeaf["nil-instance-ptr"] = func(l *LeafDesc) any {
		switch l.N {
		case 0:
			return (*stackage.Stack)(nil)
		case 1:
			return (*stackage.Condition)(nil)
		case 2:
			return (*AStack)(nil)
		case 4:
			return (*EmbStack)(nil) // a user type that inherits the library's methods by embedding
		case 5:
			return (*EmbCond)(nil)
		}
		return (*ACond)(nil)
	}
}

// c20Concurrent: "neither panics nor deadlocks on stacks with the mutex enabled" — with the mutex on, every call is one
// atomic step, so a Reveal that runs while another goroutine pushes an envelope and pops it again (or removes, or resets)
// sees the stack either with or without it: it never panics, and whatever the other goroutine gets back holds exactly
// the leaf it put in. The fixed part of the stack (a leaf, a parenthetical wrapper, a NOT) survives in order.
func c20Concurrent(c *core.Ctx) {
	r := c.Rng
	// several goroutines: the single-goroutine lock watcher does not apply here; a wait-for graph over the same lock
	// events decides "deadlock" instead (a goroutine about to wait at the end of a chain that leads back to itself)
	wfg := NewWaitGraph()
	stackage.VerifSetHook(wfg.Hook)
	defer stackage.VerifSetHook(nil)
	root := stackage.And().SetMutex()
	keepParen := stackage.Or().SetParen(true).Push(stackage.And().Push("inside-paren"))
	keepNot := stackage.Not().Push(stackage.Or().Push("inside-not"))
	root.Push("fixed-leaf", keepParen, keepNot)
	rounds := 3000
	if c.Tier == "thorough" {
		rounds = 6000
	}
	mode := r.Intn(7)
	child := stackage.Or().SetMutex().Push("child-leaf")
	if mode == 6 {
		root.Push(child) // a mutex-enabled nested stack whose content is transferred into its own parent
	}
	var bad atomic.Value
	var wg sync.WaitGroup
	done := make(chan struct{})
	wg.Add(3)
	go func() {
		// a third goroutine reveals trees of its own all along: nothing is shared, so nothing may go wrong
		defer wg.Done()
		defer func() {
			if p := recover(); p != nil {
				bad.Store(fmt.Sprintf("Reveal of a private tree panicked while other goroutines revealed theirs: %v", p))
			}
		}()
		for i := 0; ; i++ {
			select {
			case <-done:
				return
			default:
			}
			leaf := fmt.Sprintf("private-%d", i)
			own := stackage.And().SetMutex().Push(stackage.Or().SetMutex().Push(stackage.And().Push(stackage.Or().Push(stackage.And().SetMutex().Push(leaf, "second")))))
			own.Reveal()
			var seq []string
			describeLive(own, 0).leafSeq(&seq)
			if len(seq) != 2 || seq[0] != "L:"+Show(leaf) {
				bad.Store(fmt.Sprintf("a private tree around %q reads %v after its own Reveal", leaf, seq))
				return
			}
		}
	}()
	go func() {
		defer wg.Done()
		defer close(done)
		defer func() {
			if p := recover(); p != nil {
				bad.Store(fmt.Sprintf("the mutating goroutine panicked: %v", p))
			}
		}()
		for i := 0; i < rounds; i++ {
			leaf := fmt.Sprintf("leaf-%d", i)
			if mode == 6 {
				child.Transfer(root)
				got, ok := root.Pop()
				if !ok || got != "child-leaf" {
					bad.Store(fmt.Sprintf("round %d: after child.Transfer(parent) the parent's Pop returned (%s,%v)", i, Show(got), ok))
					return
				}
				continue
			}
			env := stackage.Or().Push(stackage.And().Push(leaf))
			if mode == 3 {
				root.Insert(env, 0)
			} else {
				root.Push(env)
			}
			var got any
			var ok bool
			switch mode {
			case 0:
				got, ok = root.Pop()
			case 1:
				got, ok = root.Remove(root.Len() - 1)
			case 3:
				got, ok = root.Remove(0)
			case 4:
				// the whole stack is turned round and back while Reveal may be at work on it
				root.Reverse()
				root.Reverse()
				got, ok = root.Pop()
			case 5:
				// the envelope changes places with the fixed leaf and back
				root.Swap(0, root.Len()-1)
				root.Swap(0, root.Len()-1)
				got, ok = root.Pop()
			default:
				got, ok = root.Pop()
				if i%64 == 63 {
					root.Reset()
					root.Push("fixed-leaf", keepParen, keepNot)
				}
			}
			if !ok {
				bad.Store(fmt.Sprintf("round %d: the envelope just pushed could not be taken back", i))
				return
			}
			var seq []string
			describeLive(got, 0).leafSeq(&seq)
			if len(seq) != 1 || seq[0] != "L:"+Show(leaf) {
				bad.Store(fmt.Sprintf("round %d: pushed an envelope around %q, took back %s (leaves %v)", i, leaf, Show(got), seq))
				return
			}
		}
	}()
	reveals := 0
	go func() {
		defer wg.Done()
		defer func() {
			if p := recover(); p != nil {
				bad.Store(fmt.Sprintf("Reveal panicked while another goroutine used the same mutex-enabled stack: %v", p))
			}
		}()
		for {
			select {
			case <-done:
				return
			default:
			}
			root.Reveal()
			reveals++
		}
	}()
	finished := make(chan struct{})
	go func() { wg.Wait(); close(finished) }()
	desc := map[string]any{"mode": []string{"push+pop", "push+remove", "push+pop+reset", "insert-front+remove-front", "push+reverse+reverse+pop", "push+swap+swap+pop", "child.Transfer(parent)+pop"}[mode], "rounds": rounds}
wait:
	for {
		select {
		case <-finished:
			break wait
		default:
		}
		wfg.mu.Lock()
		found := wfg.Found
		wfg.mu.Unlock()
		if found != "" {
			// (decided by the wait-for graph; the goroutines involved are left where they are)
			c.Violatef("concurrent:deadlock", desc, "deadlock on mutex-enabled stacks: %s", found)
			return
		}
		time.Sleep(200 * time.Microsecond)
		core.Beat()
	}
	if b, _ := bad.Load().(string); b != "" {
		c.Violatef("concurrent", desc, "%s", b)
		return
	}
	var seq []string
	describeLive(root, 0).leafSeq(&seq)
	wantSeq := "L:" + Show("fixed-leaf") + "|L:" + Show("inside-paren") + "|L:" + Show("inside-not")
	if mode == 6 {
		wantSeq += "|L:" + Show("child-leaf")
	}
	if strings.Join(seq, "|") != wantSeq {
		c.Violatef("concurrent:content", desc, "after the run the fixed part of the stack reads %v", seq)
		return
	}
	c.Add("concurrent.reveals", int64(reveals))
	c.Add("concurrent.rounds", int64(rounds))
	c.Count("concurrent-cases")
}

func c20Run(c *core.Ctx, idx int) {
	_, exh, _ := c20Tier(c.Tier)
	r := c.Rng
	if every := map[string]int{"thorough": 8011}[c.Tier]; idx >= exh && ((every == 0 && idx%2003 == 1001) || (every > 0 && idx%every == 1001)) {
		c20Concurrent(c)
		return
	}
	var tree *TNode
	if idx < exh {
		tree = c20Chain(idx, r)
		c.Count("trees.exhaustive-chains")
	} else {
		tree = c20Gen.Gen(r)
		// bias towards single-child chains and paren flags
		tree.Walk(func(n *TNode) {
			if n.T == "stack" {
				n.Fold = r.Chance(1, 4)
				if n.Kind != "LIST" && r.Chance(1, 4) {
					n.Sym = []string{"!", "&", "~"}[r.Intn(3)]
				}
				n.Paren = r.Chance(1, 4)
				if len(n.Kids) > 1 && r.Chance(1, 2) {
					n.Kids = n.Kids[:1]
				}
			}
			if n.T == "cond" {
				n.Paren = r.Chance(1, 5)
			}
		})
		c.Count("trees.random")
	}
	if sp := core.NewRng(core.Mix(uint64(c.Seed)+0x5b1ce, uint64(idx))); sp.Chance(1, 6) {
		// (own PRNG stream, so that the rest of the case is what it was without this step)
		if did := Spice(sp, tree, sp.Chance(1, 2), sp.Chance(1, 2), sp.Chance(1, 2)); did != "" {
			c.Count("trees.spiced." + strings.TrimSpace(strings.ReplaceAll(strings.TrimSpace(did), " ", "+")))
		}
	}
	if idx >= exh && r.Chance(1, 10) {
		// never-initialised values where Reveal looks first (slot 0), next to whatever else the stack holds
		var stacks []*TNode
		tree.Walk(func(n *TNode) {
			if n.T == "stack" && n.Cap == 0 {
				stacks = append(stacks, n)
			}
		})
		st := stacks[r.Intn(len(stacks))]
		var odd *TNode
		switch r.Intn(9) {
		case 7, 8:
			// a Condition holding a Stack, in a state in which it refuses new expressions (error recorded, read-only,
			// no-nesting raised afterwards): what it holds stays what it holds
			odd = &TNode{T: "cond", Kw: "state", Op: &OpDesc{Code: 1}, Expr: &TNode{T: "stack", Kind: "OR", Kids: []*TNode{
				{T: "stack", Kind: "AND", Kids: []*TNode{{T: "leaf", Leaf: &LeafDesc{Tag: "str", S: "st-a"}}, {T: "leaf", Leaf: &LeafDesc{Tag: "str", S: "st-b"}}}}, {T: "leaf", Leaf: &LeafDesc{Tag: "str", S: "st-c"}}}}}
			switch r.Intn(3) {
			case 0:
				odd.LeftErr = true
			case 1:
				odd.ReadOnly = true
			default:
				odd.NoNest = true
			}
			st.Kids = append(st.Kids, &TNode{T: "stack", Kind: "AND", Kids: []*TNode{{T: "stack", Kind: "OR", Kids: []*TNode{{T: "leaf", Leaf: &LeafDesc{Tag: "str", S: "env-x"}}, {T: "leaf", Leaf: &LeafDesc{Tag: "str", S: "env-y"}}}}}})
		case 4:
			// a Condition inside a Condition, the inner one holding a Stack
			odd = &TNode{T: "cond", Kw: "outer", Op: &OpDesc{Code: 1}, Expr: &TNode{T: "cond", Kw: "inner", Op: &OpDesc{Code: 6},
				Expr: &TNode{T: "stack", Kind: "OR", Kids: []*TNode{{T: "leaf", Leaf: &LeafDesc{Tag: "str", S: "in-a"}}, {T: "leaf", Leaf: &LeafDesc{Tag: "str", S: "in-b"}}}}}}
		case 5, 6:
			// leaves that cannot serve as map keys
			odd = &TNode{T: "leaf", Leaf: &LeafDesc{Tag: "unhashable", N: r.Intn(4)}}
			if r.Bool() {
				st.Kids = append(st.Kids, &TNode{T: "stack", Kind: "AND", Kids: []*TNode{{T: "stack", Kind: "OR", Kids: []*TNode{{T: "leaf", Leaf: &LeafDesc{Tag: "unhashable", N: r.Intn(4)}}, {T: "leaf", Leaf: &LeafDesc{Tag: "str", S: "u"}}}}}})
			}
		case 0:
			odd = &TNode{T: "leaf", Leaf: &LeafDesc{Tag: "zero-stack"}}
		case 1:
			odd = &TNode{T: "cond", Kw: "holder", Op: &OpDesc{Code: 1}, Expr: &TNode{T: "leaf", Leaf: &LeafDesc{Tag: "zero-stack"}}}
		default:
			// a typed nil pointer to a Stack / Condition / alias: satisfies every interface its element type satisfies,
			// yet nothing can be called through it - as the ONLY child of an envelope, or in slot 0 next to others
			odd = &TNode{T: "leaf", Leaf: &LeafDesc{Tag: "nil-instance-ptr", N: r.Intn(6)}}
			if r.Bool() {
				odd = &TNode{T: "stack", Kind: []string{"AND", "OR", "LIST"}[r.Intn(3)], Kids: []*TNode{odd}}
			}
		}
		st.Kids = append([]*TNode{odd}, st.Kids...)
		if r.Bool() {
			st.Mutex = true
		}
		c.Count("trees.zero-stack-in-slot-0")
	}
	root := tree.BuildStack()
	desc := map[string]any{"tree": tree}
	if idx >= exh && idx%5 == 0 {
		// elements held through a pointer whose pointee is exchanged after earlier calls have looked at it: Reveal (like
		// any call) works on what the pointer designates NOW
		_ = root.String()
		root.IsNesting()
		swapped := 0
		var visit func(s stackage.Stack, d int)
		visit = func(s stackage.Stack, d int) {
			for i := 0; i < s.Len() && d < 6; i++ {
				v, _ := s.Index(i)
				if cd, ok := AsCond(v); ok && cd.IsInit() {
					cd.Len()
					v = cd.Expression()
				}
				if p, ok := v.(*AStack); ok && p != nil && r.Chance(1, 2) {
					*p = AStack(stackage.And().Push(fmt.Sprintf("exchanged-%d", swapped), stackage.Or().Push("exchanged-inner")))
					swapped++
					continue
				}
				if ns, ok := AsStack(v); ok && ns.IsInit() {
					visit(ns, d+1)
				}
			}
		}
		visit(root, 0)
		if swapped > 0 {
			c.Count("trees.pointee-exchanged-after-first-sight")
		}
	}
	before := describeLive(root, 0)
	// lock monitor: a lock.want on a mutex this goroutine already holds is a certain deadlock
	held := map[uintptr]int{}
	lockEvents := 0
	stackage.VerifSetHook(func(point string, id uintptr) {
		switch point {
		case "lock.want":
			lockEvents++
			if held[id] > 0 {
				panic(reentrantLock{id})
			}
		case "lock.held":
			held[id]++
		case "lock.released":
			held[id]--
		}
	})
	defer stackage.VerifSetHook(nil)
	prev := before
	for pass := 1; pass <= 2; pass++ {
		var deadlock bool
		pan, msg, site := Guard(func() {
			defer func() {
				if rv := recover(); rv != nil {
					if _, ok := rv.(reentrantLock); ok {
						deadlock = true
						return
					}
					panic(rv)
				}
			}()
			root.Reveal()
		})
		if deadlock {
			c.Violatef("deadlock:re-entrant-lock", desc, "Reveal (pass %d) tried to take a stack lock it already holds (would deadlock) on %s", pass, tree.Brief())
			return
		}
		if pan {
			c.Violatef("panic:"+site, desc, "Reveal (pass %d) panicked: %s on %s", pass, msg, tree.Brief())
			return
		}
		for id, n := range held {
			if n != 0 {
				c.Violatef("lock-leak", desc, "after Reveal a stack lock (#%x) is still held (%d)", id, n)
				return
			}
		}
		after := describeLive(root, 0)
		// (1) leaves and conditions, depth first
		var sb, sa []string
		prev.leafSeq(&sb)
		after.leafSeq(&sa)
		if strings.Join(sb, "|") != strings.Join(sa, "|") {
			c.Violatef("leaf-sequence", desc, "pass %d: leaf sequence changed\n before %v\n after  %v\n tree %s\n after: %s", pass, sb, sa, prev.brief(), after.brief())
			return
		}
		// (2) same fully-unwrapped form
		if d := sameForm(normalForm(prev), normalForm(after), "root"); d != "" {
			c.Violatef("normal-form", desc, "pass %d: before and after do not reduce to the same unwrapped form: %s\n before %s\n after  %s", pass, d, prev.brief(), after.brief())
			return
		}
		// (3) depth never grows; parenthetical and NOT nodes survive
		if after.depth() > prev.depth() {
			c.Violatef("depth-grew", desc, "pass %d: depth %d -> %d", pass, prev.depth(), after.depth())
			return
		}
		keep := map[uintptr]string{}
		prev.collect(keep)
		for id, k := range keep {
			if !after.has(id) {
				c.Violatef("protected-node-removed", desc, "pass %d: a parenthetical/NOT node (%s) disappeared\n before %s\n after  %s", pass, k, prev.brief(), after.brief())
				return
			}
		}
		if after.id != prev.id || after.kind != prev.kind {
			c.Violatef("root-replaced", desc, "pass %d: the receiver itself changed", pass)
			return
		}
		if pass == 1 {
			changed := sameForm(prev, after, "root") != ""
			protected := false
			var chk func(n *rNode, isRoot bool)
			chk = func(n *rNode, isRoot bool) {
				if !isRoot && n.typ == "stack" && len(n.kids) == 1 && (n.paren || strings.EqualFold(n.kind, "NOT") || n.kids[0].paren || n.kids[0].typ == "leaf") {
					protected = true
				}
				for _, k := range n.kids {
					chk(k, false)
				}
			}
			chk(prev, true)
			if changed {
				c.Count("reveal-changed-structure")
			}
			if changed && protected {
				c.NontrivialStr(core.JSON(tree))
				c.Count("changed-and-has-protected-wrapper")
			}
			if c.WantSample() && changed && idx%1117 == 5 {
				c.Sample(map[string]any{"before": prev.brief(), "after": after.brief()})
			}
		}
		prev = after
	}
	c.Add("lock-events", int64(lockEvents))
}

func init() {
	core.Register(&core.Monitor{
		ID: "C20",
		Cases: func(tier string) int {
			_, e, r := c20Tier(tier)
			return e + r
		},
		Run: c20Run,
		Rule: "exhaustive: every chain of 1..4 (quick) / 1..5 (thorough) single-child links over {AND,OR,NOT,LIST,BASIC} x {plain,parenthetical} ending in a leaf, a Condition or a 2-element stack, placed between siblings in a root; " +
			"random: trees of depth <= 6, width <= 3 biased to single-child chains, all kinds, random parenthetical flags, empty stacks, nil slots, Conditions holding stacks, alias forms, negative/forward index options and the mutex enabled on a third of the nodes (Reveal's own scan goes through the index translation). Reveal is applied twice. " +
			"Oracle per application, on live descriptions carrying node identity (VerifDump): depth-first sequence of leaves and Condition keyword/operator identical; before and after reduce to the same fully-unwrapped normal form; depth does not grow; every parenthetical or NOT node and the receiver survive; no panic; " +
			"the lock-point hook reports a lock.want on a mutex the goroutine already holds (certain deadlock) and leaked locks. non-trivial = Reveal changed the structure AND the tree contains a single-child wrapper that must not be removed; distinct = tree description.",
		Assumptions: []string{"trees, not DAGs: no Stack instance occurs twice in one structure", "Reveal may remove any subset of the removable wrappers (the statement fixes which removals are legal, not how many are performed)"},
		Floors: func(string) map[string]int64 {
			return map[string]int64{"reveal-changed-structure": 5000, "changed-and-has-protected-wrapper": 1000, "lock-events": 5000, "concurrent-cases": 20, "concurrent.reveals": 1000}
		},
	})
}
