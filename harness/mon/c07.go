package mon

import (
	"fmt"
	"strings"

	stackage "github.com/JesseCoretta/go-stackage"
	"verifharness/core"
)

// C07 — Traverse(path) equals stepwise Index descent.

// descend returns the Stack a value lets a path continue into.
func descend(v any) (stackage.Stack, bool) {
	if s, ok := AsStack(v); ok {
		return s, true
	}
	if cnd, ok := AsCond(v); ok {
		if s, ok := AsStack(cnd.Expression()); ok {
			return s, true
		}
	}
	return stackage.Stack{}, false
}

// refTraverse is the statement, written over the public API only. failStep/failLevel describe where it gave up.
func refTraverse(root stackage.Stack, path []int) (v any, ok bool, failStep int, failLevel stackage.Stack) {
	failStep = -1
	if len(path) == 0 {
		return nil, false, -1, root
	}
	cur := root
	for j, i := range path {
		e, found := cur.Index(i)
		if !found {
			return nil, false, j, cur
		}
		if j == len(path)-1 {
			return e, true, -1, cur
		}
		next, can := descend(e)
		if !can {
			return nil, false, j, cur
		}
		cur = next
	}
	return nil, false, -1, cur
}

// sameInstance compares two results after normalising aliases.
func sameInstance(a, b any) bool {
	if a == nil || b == nil {
		return a == nil && b == nil
	}
	sa, oka := stackage.VerifDump(a)
	sb, okb := stackage.VerifDump(b)
	if oka != okb {
		return false
	}
	if oka {
		if sa.IsStack != sb.IsStack {
			return false
		}
		if sa.IsStack {
			return sa.HdrAddr == sb.HdrAddr
		}
		return sa.CfgAddr == sb.CfgAddr
	}
	return SameValue(a, b)
}

var c07Gen = TreeGen{MaxDepth: 4, MaxWidth: 4, MinWidth: 0, NilLeaves: 12, Conds: 22, CondStackExpr: 55, CondCondExpr: 5,
	Aliases: 25, IdxOpts: true, StackProb: 45, Leaf: c07Leaf}

func init() {
	// element values that are not nil interfaces although they hold nothing: Index hands them out, Traverse must too
	extraLeaf["odd"] = func(l *LeafDesc) any {
		switch l.I {
		case 0:
			return (*int)(nil)
		case 1:
			return map[string]int(nil)
		case 2:
			return []int(nil)
		case 3:
			return (chan int)(nil)
		case 4:
			return AStack{} // a zero-valued alias: an element like any other, not descendable
		case 5:
			return (*AStack)(nil)
		case 6:
			return stackage.Stack{}
		case 8:
			return (*stackage.Stack)(nil)
		case 9:
			return (*stackage.Condition)(nil)
		case 10:
			return stackage.Condition{}
		case 11:
			// user types that merely EMBED a Stack (they inherit its methods, Traverse included, yet are no Stacks)
			return EmbStack{stackage.And().Push("in0", "in1")}
		case 12:
			return &EmbStack{stackage.Or().Push("pin0", stackage.And().Push("deeper"))}
		case 13:
			return EmbCond{stackage.Cond("ek", stackage.Eq, stackage.And().Push("ce0"))}
		}
		return ACond{}
	}
}

func c07Leaf(r *core.Rng) *LeafDesc {
	if r.Chance(1, 7) {
		return &LeafDesc{Tag: "odd", I: int64(r.Intn(14))}
	}
	return SimpleLeaf(r)
}

func c07Tier(tier string) int {
	if tier == "thorough" {
		return 600000
	}
	return 12000
}

// two different types that print alike (reflect: "mon.c07box"): one an ordinary struct, one a Stack alias
func c07PlainBox() any {
	type c07box struct{ n int }
	return c07box{7}
}

func c07AliasBox(s stackage.Stack) any {
	type c07box stackage.Stack
	return c07box(s)
}

// c07Special: shapes a random tree never has. (a) a level with very many descendable members (around 2^8, 2^12, 2^16);
// (b) two types of one printed name, a leaf struct and a Stack alias, met in either order. Traverse against the stepwise
// descent the test itself performs on the values it built.
func c07Special(c *core.Ctx, idx int) {
	r := c.Rng
	if idx%2 == 0 {
		w := []int{255, 256, 257, 4095, 4096, 4097, 65535, 65536, 65537}[r.Intn(9)]
		root := stackage.And()
		members := make([]any, w)
		for i := range members {
			if i%5 == 4 {
				members[i] = stackage.Cond("k", stackage.Eq, stackage.Or().Push(i))
			} else {
				members[i] = stackage.Or().Push(i)
			}
		}
		root.Push(members...)
		if r.Chance(1, 3) {
			// ... some of them taken out and put back
			root.Remove(0)
			root.Insert(members[0], 0)
			root.Pop()
			root.Push(members[w-1])
		}
		for _, i := range []int{0, 1, w / 2, w - 2, w - 1, r.Intn(w)} {
			var got any
			var ok bool
			if p, msg, site := Guard(func() { got, ok = root.Traverse(i, 0) }); p {
				c.Violatef("panic:"+site+":wide-level", map[string]any{"width": w}, "Traverse(%d,0) panicked on a level of %d members: %s", i, w, msg)
				return
			}
			if !ok || got != i {
				c.Violatef("wide-level", map[string]any{"width": w}, "Traverse(%d,0) on a level of %d nested Stacks / Conditions returned (%s,%v); Index then Index finds %d", i, w, Show(got), ok, i)
				return
			}
		}
		c.Count("special.wide-levels")
		return
	}
	inner := stackage.Or().Push("boxed-leaf")
	var root stackage.Stack
	order := "struct-first"
	if (idx/2)%2 == 0 {
		root = stackage.And().Push(c07PlainBox(), c07AliasBox(inner))
		_ = root.String()
	} else {
		order = "alias-first"
		root = stackage.And().Push(c07AliasBox(inner), c07PlainBox())
		_ = root.String()
		root.Reverse()
	}
	var got, got0 any
	var ok, ok0 bool
	if p, msg, site := Guard(func() { got, ok = root.Traverse(1, 0); got0, ok0 = root.Traverse(0, 0) }); p {
		c.Violatef("panic:"+site+":homonyms", map[string]any{"order": order}, "Traverse panicked on a stack holding a struct and a Stack alias whose types print alike: %s", msg)
		return
	}
	if !ok || got != "boxed-leaf" || ok0 || got0 != nil {
		c.Violatef("homonyms", map[string]any{"order": order}, "And(struct c07box, alias c07box(Or(\"boxed-leaf\"))): Traverse(1,0)=(%s,%v), expected the leaf; Traverse(0,0)=(%s,%v), expected (nil,false) (%s)", Show(got), ok, Show(got0), ok0, order)
		return
	}
	c.Count("special.homonym-types")
}

func c07Run(c *core.Ctx, idx int) {
	if idx%300 == 150 {
		c07Special(c, idx/300)
		return
	}
	r := c.Rng
	tree := c07Gen.Gen(r)
	tree.Walk(func(n *TNode) {
		if n.T == "stack" && r.Chance(1, 6) {
			n.NoNest = true // set after the pushes: must not affect elements already present
		}
	})
	if SpiceErrs(uint64(c.Seed), idx, tree) {
		c.Count("trees.with-left-over-errors")
	}
	if sp := core.NewRng(core.Mix(uint64(c.Seed)+0x5b1ce, uint64(idx))); sp.Chance(1, 6) {
		// (own PRNG stream, so that the rest of the case is what it was without this step)
		if did := Spice(sp, tree, sp.Chance(1, 2), sp.Chance(1, 2), sp.Chance(1, 2)); did != "" {
			c.Count("trees.spiced." + strings.TrimSpace(strings.ReplaceAll(strings.TrimSpace(did), " ", "+")))
		}
	}
	root := tree.BuildStack()
	depth := tree.Depth()
	lo, hi := -1, c07Gen.MaxWidth+1
	span := hi - lo + 1
	maxLen := depth + 2
	if maxLen > 6 {
		maxLen = 6
	}
	deepTree := depth > 9 // (a spiced tree with a chain of 10..18 levels: long paths are followed to the bottom below)
	check := func(path []int) bool {
		c.Count("paths")
		wv, wok, failStep, level := refTraverse(root, path)
		var gv any
		var gok bool
		if p, msg, site := Guard(func() { gv, gok = root.Traverse(path...) }); p {
			c.Violatef("panic:"+site, map[string]any{"tree": tree, "path": path}, "Traverse(%v) panicked: %s on %s", path, msg, tree.Brief())
			return false
		}
		if wok {
			c.Count("paths.succeeding")
		}
		sibling := false
		if !wok && failStep >= 0 {
			for k := failStep + 1; k < len(path); k++ {
				if e, found := level.Index(path[k]); found {
					if _, can := descend(e); can {
						sibling = true
					}
				}
			}
			if sibling {
				c.Count("paths.sibling-substitution-shape")
				c.NontrivialStr(fmt.Sprintf("%s|%v", tree.Brief(), path))
			}
		}
		if gok == wok && gok && sameInstance(gv, wv) && !SameValue(gv, wv) {
			c.Violatef("not-the-stored-value", map[string]any{"tree": tree, "path": path},
				"Traverse(%v) returned %T where stepwise Index descent yields the stored %T (same underlying instance, different value) on %s", path, gv, wv, tree.Brief())
			return false
		}
		if gok != wok || !sameInstance(gv, wv) {
			key := "mismatch"
			if sibling {
				key = "sibling-substitution"
			} else if len(path) == 0 {
				key = "empty-path"
			} else if !wok && gok {
				key = "false-success"
			} else if wok && !gok {
				key = "false-failure"
			}
			c.Violatef(key, map[string]any{"tree": tree, "path": path},
				"Traverse(%v)=(%s,%v) but stepwise Index descent gives (%s,%v) on %s", path, Show(gv), gok, Show(wv), wok, tree.Brief())
			return false
		}
		if !gok && gv != nil {
			c.Violatef("value-on-failure", map[string]any{"tree": tree, "path": path}, "Traverse(%v) failed but returned %s", path, Show(gv))
			return false
		}
		return true
	}
	// all paths up to length 3, then sampled longer ones
	path := make([]int, 0, 8)
	var rec func(l int) bool
	rec = func(l int) bool {
		if !check(path) {
			return false
		}
		if l == 0 {
			return true
		}
		for i := lo; i <= hi; i++ {
			path = append(path, i)
			ok := rec(l - 1)
			path = path[:len(path)-1]
			if !ok {
				return false
			}
		}
		return true
	}
	full := 3
	if maxLen < full {
		full = maxLen
	}
	if !rec(full) {
		return
	}
	for n := 0; n < 600 && maxLen > 3; n++ {
		L := r.Range(4, maxLen)
		path = path[:0]
		for i := 0; i < L; i++ {
			// bias towards in-range indices so deep paths survive
			if r.Chance(3, 4) {
				path = append(path, r.Intn(span-2))
			} else {
				path = append(path, lo+r.Intn(span))
			}
		}
		if !check(path) {
			return
		}
	}
	if deepTree {
		// paths of 10..24 indices down the chain (the chain hangs at the end of the root; each level holds [number, next])
		var last int
		for last = root.Len() - 1; last >= 0; last-- {
			if v, _ := root.Index(last); v != nil {
				if _, ok := AsStack(v); ok {
					break
				}
			}
		}
		for L := 8; L <= depth+3 && L <= 26 && last >= 0; L++ {
			path = path[:0]
			path = append(path, last)
			for i := 1; i < L; i++ {
				path = append(path, 1)
			}
			if !check(path) {
				return
			}
			path[len(path)-1] = 0
			if !check(path) {
				return
			}
		}
		c.Count("trees.long-paths-down-a-deep-chain")
	}
	if idx%5 == 2 {
		// Traverse issued from INSIDE a push policy of a mutex-enabled level (the level's lock is held by the Push that
		// consults the policy): reading is lock-free, so the answers are what they are at any other moment
		var lvl stackage.Stack
		var find func(s stackage.Stack, d int)
		find = func(s stackage.Stack, d int) {
			if d > 5 || lvl.IsInit() {
				return
			}
			for i := 0; i < s.Len(); i++ {
				v, _ := s.Index(i)
				if ns, ok := AsStack(v); ok && ns.IsInit() {
					if !ns.IsReadOnly() && ns.Cap() < 0 && d >= 0 {
						lvl = ns
						return
					}
					find(ns, d+1)
				}
			}
		}
		find(root, 0)
		if lvl.IsInit() {
			lvl.SetMutex()
			okInside := true
			lvl.SetPushPolicy(func(...any) error {
				path = path[:0]
				okInside = rec(2)
				return nil
			})
			lvl.Push("pushed-while-traversing")
			lvl.SetPushPolicy(nil)
			if !okInside {
				return
			}
			c.Count("trees.traversed-from-inside-a-push-policy")
			// ... and a walk that is interrupted by another walk: the level's (accepting) validity closure is consulted
			// in mid-Traverse and itself traverses an unrelated structure
			other := stackage.And().Push("o0", "o1", stackage.Or().Push("oo0", "oo1", "oo2"))
			lvl.SetValidityPolicy(func(...any) error { other.Traverse(2, 2); other.Traverse(2, 1, 0); return nil })
			path = path[:0]
			okNested := rec(3)
			lvl.SetValidityPolicy(nil)
			if !okNested {
				return
			}
			c.Count("trees.walks-interrupted-by-another-walk")
		}
	}
	if idx%3 == 0 {
		// second phase: the live structure is changed through retained handles (expressions re-assigned from Stack to plain
		// value and back, left-over errors set on Conditions and Stacks) and every short path is compared again - the
		// reference descends the live structure, so anything Traverse remembers from before shows
		changed := 0
		var visit func(s stackage.Stack, d int)
		visit = func(s stackage.Stack, d int) {
			if d > 6 {
				return
			}
			if r.Chance(1, 6) && !s.IsReadOnly() {
				s.SetErr(errPolicyRejects)
				changed++
			}
			for i := 0; i < s.Len(); i++ {
				v, _ := s.Index(i)
				if ns, ok := AsStack(v); ok && ns.IsInit() {
					visit(ns, d+1)
				} else if cd, ok := AsCond(v); ok && cd.IsInit() {
					ex := cd.Expression()
					es, isS := AsStack(ex)
					switch r.Intn(4) {
					case 0:
						if isS {
							cd.SetExpression("plain value now")
							changed++
						}
					case 1:
						if !isS {
							cd.SetExpression(stackage.Or().Push("late-a", "late-b"))
							changed++
						}
					case 2:
						cd.SetErr(errPolicyRejects)
						changed++
					}
					if isS && es.IsInit() {
						visit(es, d+1)
					}
				}
			}
		}
		visit(root, 0)
		if changed > 0 {
			c.Count("trees.second-phase-after-live-changes")
			path = path[:0]
			if !rec(full) {
				return
			}
		}
	}
	c.Count("trees")
	if c.WantSample() && idx%311 == 1 {
		v, ok := root.Traverse(0, 0)
		c.Sample(map[string]any{"tree": tree.Brief(), "example_path": []int{0, 0}, "result": Show(v), "ok": ok})
	}
}

func init() {
	core.Register(&core.Monitor{
		ID:    "C07",
		Cases: c07Tier,
		Run:   c07Run,
		Rule: "random trees (depth <= 4, width 0..4) with leaves, nil slots, Conditions with stack / non-stack / Condition expressions, alias forms and per-stack negative/forward index options; " +
			"for each tree ALL paths of length 0..3 over indices [-1,5] plus 600 sampled paths of length 4..depth+2; Traverse is compared (value identity after alias normalisation, success flag) with a reference descent written over Index/Expression and the harness's own converters (AsStack/AsCond) only. " +
			"On every third tree a second phase re-assigns expressions (Stack <-> plain value) and sets left-over errors through retained handles and compares all short paths again; a sixth of the trees is spiced (very wide stack, very long string, one instance at two positions). " +
			"non-trivial = the reference fails at step j while a later index, applied to that same level, addresses something descendable (the sibling-substitution shape); distinct = (tree, path).",
		Assumptions: []string{"'exactly the value' is read strictly: the dynamic type and identity of the result must equal what Index yields (an alias stays an alias)"},
		Floors: func(tier string) map[string]int64 {
			return map[string]int64{"paths.sibling-substitution-shape": 1000, "paths.succeeding": 10000, "special.wide-levels": 5, "special.homonym-types": 5, "cases.with-bystander-goroutines": 150, "trees.second-phase-after-live-changes": 1000}
		},
	})
}
