package mon

import (
	"fmt"
	"math"
	"reflect"
	"strings"

	stackage "github.com/JesseCoretta/go-stackage"
	"verifharness/core"
)

// C05 — IsEqual accepts equal trees and rejects any difference.

// PubStruct is a struct leaf: exported fields of primitive / pointer kind plus one unexported field (skipped, not fatal).
type PubStruct struct {
	A    int
	B    string
	P    *int
	F    float64
	priv int
}

type embBase struct{ X int }

// EmbStruct embeds a non-exported type (unreadable through reflection, to be skipped like any private field).
type EmbStruct struct {
	embBase
	Name string
	Tags []string
}

// StrStruct has a String method that shows only part of it.
type StrStruct struct {
	Name  string
	Level int
	Tags  []string
}

func (s StrStruct) String() string { return s.Name }

// IfaceStruct: comparable as a type, not necessarily as a value.
type IfaceStruct struct {
	Name string
	Any  any
}

// two DIFFERENT struct types that print the same name (function-local declarations)
func homonymA(l *LeafDesc) any {
	type entry struct {
		Name string
		Age  int
	}
	return entry{l.Elems[0].S, int(l.Elems[1].I)}
}

func homonymB(l *LeafDesc) any {
	type entry struct {
		Name   string
		Age    int
		Mail   string
		Scores []int
	}
	return entry{l.Elems[0].S, int(l.Elems[1].I), l.Elems[2].S, []int{int(l.Elems[3].I), int(l.Elems[4].I)}}
}

// SliceStruct has slice- and array-valued fields.
type SliceStruct struct {
	Name string
	L    []int
	Arr  [2]string
}

func init() {
	ints := func(l *LeafDesc) []int {
		out := make([]int, len(l.Elems))
		for i, e := range l.Elems {
			out[i] = int(e.I)
		}
		return out
	}
	extraLeaf["ptr"] = func(l *LeafDesc) any {
		// pointer chain of depth N to a primitive
		if l.N > 3 {
			// any depth: built by reflection (*T, **T, ... N levels)
			rv := reflect.ValueOf(l.Elems[0].Build())
			for i := 0; i < l.N; i++ {
				p := reflect.New(rv.Type())
				p.Elem().Set(rv)
				rv = p
			}
			return rv.Interface()
		}
		switch v := l.Elems[0].Build().(type) {
		case int:
			p1 := &v
			if l.N == 1 {
				return p1
			}
			p2 := &p1
			if l.N == 2 {
				return p2
			}
			return &p2
		case string:
			p1 := &v
			if l.N == 1 {
				return p1
			}
			p2 := &p1
			if l.N == 2 {
				return p2
			}
			return &p2
		case float64:
			p1 := &v
			if l.N == 1 {
				return p1
			}
			p2 := &p1
			if l.N == 2 {
				return p2
			}
			return &p2
		case bool:
			p1 := &v
			if l.N == 1 {
				return p1
			}
			p2 := &p1
			if l.N == 2 {
				return p2
			}
			return &p2
		}
		return nil
	}
	extraLeaf["slice-int"] = func(l *LeafDesc) any { return ints(l) }
	extraLeaf["slice-uintptr"] = func(l *LeafDesc) any {
		out := make([]uintptr, len(l.Elems))
		for i, e := range l.Elems {
			out[i] = uintptr(e.I)
		}
		return out
	}
	extraLeaf["slice-str"] = func(l *LeafDesc) any {
		out := make([]string, len(l.Elems))
		for i, e := range l.Elems {
			out[i] = e.S
		}
		return out
	}
	extraLeaf["slice-any"] = func(l *LeafDesc) any {
		out := make([]any, len(l.Elems))
		for i, e := range l.Elems {
			out[i] = e.Build()
		}
		return out
	}
	extraLeaf["slice-ptr"] = func(l *LeafDesc) any {
		out := make([]*int, len(l.Elems))
		for i, e := range l.Elems {
			if e.Tag == "nilptr" {
				continue // a nil pointer element (same index in every instantiation)
			}
			v := int(e.I)
			out[i] = &v
		}
		return out
	}
	extraLeaf["array3-int"] = func(l *LeafDesc) any {
		var a [3]int
		copy(a[:], ints(l))
		return a
	}
	extraLeaf["array2-str"] = func(l *LeafDesc) any { return [2]string{l.Elems[0].S, l.Elems[1].S} }
	extraLeaf["map-str-int"] = func(l *LeafDesc) any {
		m := make(map[string]int, len(l.Keys))
		for i, k := range l.Keys {
			m[k] = int(l.Elems[i].I)
		}
		return m
	}
	extraLeaf["map-str-any"] = func(l *LeafDesc) any {
		m := make(map[string]any, len(l.Keys))
		for i, k := range l.Keys {
			m[k] = l.Elems[i].Build()
		}
		return m
	}
	extraLeaf["map-int-str"] = func(l *LeafDesc) any {
		m := make(map[int]string, len(l.Keys))
		for i := range l.Keys {
			m[int(l.Elems[i].I)] = l.Keys[i]
		}
		return m
	}
	extraLeaf["struct"] = func(l *LeafDesc) any {
		p := int(l.Elems[2].I)
		return PubStruct{A: int(l.Elems[0].I), B: l.Elems[1].S, P: &p, F: l.Elems[3].F, priv: 7}
	}
	extraLeaf["ptr-struct"] = func(l *LeafDesc) any {
		p := int(l.Elems[2].I)
		return &PubStruct{A: int(l.Elems[0].I), B: l.Elems[1].S, P: &p, F: l.Elems[3].F, priv: 9}
	}
	extraLeaf["array4-byte"] = func(l *LeafDesc) any {
		return [4]byte{byte(l.Elems[0].I), byte(l.Elems[1].I), byte(l.Elems[2].I), byte(l.Elems[3].I)}
	}
	extraLeaf["slice-byte"] = func(l *LeafDesc) any {
		out := make([]byte, len(l.Elems))
		for i, e := range l.Elems {
			out[i] = byte(e.I)
		}
		return out
	}
	extraLeaf["emb-struct"] = func(l *LeafDesc) any {
		return EmbStruct{embBase: embBase{X: 3}, Name: l.Elems[0].S, Tags: []string{l.Elems[1].S, l.Elems[2].S}}
	}
	extraLeaf["iface-struct"] = func(l *LeafDesc) any {
		// a struct whose type is comparable although this value is not (an interface field holding a slice / a map)
		if l.N == 1 {
			return IfaceStruct{Name: l.Elems[0].S, Any: map[string]int{"k": int(l.Elems[1].I), "l": int(l.Elems[2].I)}}
		}
		return IfaceStruct{Name: l.Elems[0].S, Any: []int{int(l.Elems[1].I), int(l.Elems[2].I)}}
	}
	// composite leaves whose members are POINTERS to primitives (or nil pointers), held in interface-typed or
	// pointer-typed slots
	extraLeaf["slice-any-ptr"] = func(l *LeafDesc) any {
		out := make([]any, len(l.Elems))
		for i, e := range l.Elems {
			v := int(e.I)
			if i%2 == 0 {
				out[i] = &v
			} else {
				p := &v
				out[i] = &p
			}
		}
		return out
	}
	extraLeaf["array2-any-ptr"] = func(l *LeafDesc) any {
		a, b := int(l.Elems[0].I), l.Elems[1].S
		return [2]any{&a, &b}
	}
	extraLeaf["struct-nilptr"] = func(l *LeafDesc) any {
		return PubStruct{A: int(l.Elems[0].I), B: l.Elems[1].S, P: nil, F: 1.5}
	}
	extraLeaf["map-str-ptr"] = func(l *LeafDesc) any {
		m := map[string]*int{}
		for i, k := range l.Keys {
			if l.Elems[i].Tag == "nilptr" {
				m[k] = nil
				continue
			}
			v := int(l.Elems[i].I)
			m[k] = &v
		}
		return m
	}
	extraLeaf["stringer-struct"] = func(l *LeafDesc) any {
		v := StrStruct{Name: l.Elems[0].S, Level: int(l.Elems[1].I), Tags: []string{l.Elems[2].S, l.Elems[3].S}}
		if l.N == 1 {
			return &v
		}
		return v
	}
	extraLeaf["homonym-a"] = homonymA
	extraLeaf["homonym-b"] = homonymB
	extraLeaf["slice-struct"] = func(l *LeafDesc) any {
		return SliceStruct{Name: l.Elems[0].S, L: []int{int(l.Elems[1].I), int(l.Elems[2].I), int(l.Elems[3].I)}, Arr: [2]string{l.Elems[4].S, l.Elems[5].S}}
	}
}

func c05Prim(r *core.Rng) *LeafDesc {
	if r.Chance(1, 8) {
		// a primitive of a defined type (type Attr string, type Level int ...) is a primitive
		switch r.Intn(6) {
		case 0:
			return &LeafDesc{Tag: "named-int", I: int64(r.Intn(1000))}
		case 1:
			return &LeafDesc{Tag: "named-bool", B: r.Bool()}
		case 2:
			return &LeafDesc{Tag: "named-float", F: float64(r.Intn(1000)) / 4}
		case 3:
			return &LeafDesc{Tag: "named-str", S: fmt.Sprintf("ns%d", r.Intn(1000))}
		case 4:
			return &LeafDesc{Tag: "complex128", F: float64(r.Intn(100)), I: int64(r.Intn(100))}
		}
		if r.Bool() {
			return &LeafDesc{Tag: "uintptr", I: int64(r.Intn(1 << 16))}
		}
		return &LeafDesc{Tag: "rune", I: int64('a' + r.Intn(26))}
	}
	switch r.Intn(5) {
	case 0:
		return &LeafDesc{Tag: "int", I: int64(r.Intn(1000))}
	case 1:
		return &LeafDesc{Tag: "float64", F: float64(r.Intn(1000)) / 4}
	case 2:
		return &LeafDesc{Tag: "bool", B: r.Bool()}
	case 3:
		return &LeafDesc{Tag: []string{"int8", "uint16", "int64", "uint"}[r.Intn(4)], I: int64(r.Intn(100))}
	}
	return &LeafDesc{Tag: "str", S: fmt.Sprintf("s%d", r.Intn(1000))}
}

func intLeaf(r *core.Rng) *LeafDesc { return &LeafDesc{Tag: "int", I: int64(r.Intn(1000))} }
func strLeaf(r *core.Rng) *LeafDesc {
	return &LeafDesc{Tag: "str", S: fmt.Sprintf("t%d", r.Intn(1000))}
}

func c05Leaf(r *core.Rng) *LeafDesc {
	n := r.Range(1, 5)
	many := func(f func(*core.Rng) *LeafDesc, k int) []*LeafDesc {
		out := make([]*LeafDesc, k)
		for i := range out {
			out[i] = f(r)
		}
		return out
	}
	keys := func(k int) []string {
		out := make([]string, k)
		for i := range out {
			out[i] = fmt.Sprintf("k%d", i)
		}
		return out
	}
	switch r.Intn(20) {
	case 0, 1:
		var prim *LeafDesc
		switch r.Intn(4) {
		case 0:
			prim = intLeaf(r)
		case 1:
			prim = strLeaf(r)
		case 2:
			prim = &LeafDesc{Tag: "float64", F: float64(r.Intn(100)) / 2}
		default:
			prim = &LeafDesc{Tag: "bool", B: r.Bool()}
		}
		depth := r.Range(1, 3)
		if r.Chance(1, 8) {
			depth = r.Range(9, 24) // "a pointer to one at any depth"
		}
		return &LeafDesc{Tag: "ptr", N: depth, Elems: []*LeafDesc{prim}}
	case 2, 3:
		if r.Chance(1, 6) {
			return &LeafDesc{Tag: "slice-uintptr", Elems: many(intLeaf, n)}
		}
		return &LeafDesc{Tag: "slice-int", Elems: many(intLeaf, n)}
	case 4:
		return &LeafDesc{Tag: "slice-str", Elems: many(strLeaf, n)}
	case 5:
		return &LeafDesc{Tag: "slice-any", Elems: many(c05Prim, n)}
	case 6:
		es := many(intLeaf, n)
		for i := range es {
			if i < len(es)-1 && r.Chance(1, 3) {
				es[i] = &LeafDesc{Tag: "nilptr"}
			}
		}
		return &LeafDesc{Tag: "slice-ptr", Elems: es}
	case 7:
		return &LeafDesc{Tag: "array3-int", Elems: many(intLeaf, 3)}
	case 8:
		return &LeafDesc{Tag: "array2-str", Elems: many(strLeaf, 2)}
	case 9:
		return &LeafDesc{Tag: "map-str-int", Keys: keys(n), Elems: many(intLeaf, n)}
	case 10:
		return &LeafDesc{Tag: "map-str-any", Keys: keys(n), Elems: many(c05Prim, n)}
	case 11:
		ks := keys(n)
		es := make([]*LeafDesc, n)
		for i := range es {
			es[i] = &LeafDesc{Tag: "int", I: int64(i * 3)}
		}
		return &LeafDesc{Tag: "map-int-str", Keys: ks, Elems: es}
	case 12:
		return &LeafDesc{Tag: []string{"struct", "ptr-struct"}[r.Intn(2)], Elems: []*LeafDesc{intLeaf(r), strLeaf(r), intLeaf(r), {Tag: "float64", F: float64(r.Intn(50))}}}
	case 13:
		return &LeafDesc{Tag: "slice-struct", Elems: []*LeafDesc{strLeaf(r), intLeaf(r), intLeaf(r), intLeaf(r), strLeaf(r), strLeaf(r)}}
	case 14:
		return &LeafDesc{Tag: "emb-struct", Elems: []*LeafDesc{strLeaf(r), strLeaf(r), strLeaf(r)}}
	case 16:
		switch r.Intn(8) {
		case 4:
			return &LeafDesc{Tag: "slice-any-ptr", Elems: many(intLeaf, n)}
		case 5:
			return &LeafDesc{Tag: "array2-any-ptr", Elems: []*LeafDesc{intLeaf(r), strLeaf(r)}}
		case 6:
			return &LeafDesc{Tag: "struct-nilptr", Elems: []*LeafDesc{intLeaf(r), strLeaf(r)}}
		case 7:
			es := many(intLeaf, n)
			es[r.Intn(len(es))] = &LeafDesc{Tag: "nilptr"}
			return &LeafDesc{Tag: "map-str-ptr", Keys: keys(n), Elems: es}
		case 3:
			return &LeafDesc{Tag: "stringer-struct", N: r.Intn(2), Elems: []*LeafDesc{strLeaf(r), intLeaf(r), strLeaf(r), strLeaf(r)}}
		case 0:
			return &LeafDesc{Tag: "iface-struct", N: r.Intn(2), Elems: []*LeafDesc{strLeaf(r), intLeaf(r), intLeaf(r)}}
		case 1:
			return &LeafDesc{Tag: "homonym-a", Elems: []*LeafDesc{strLeaf(r), intLeaf(r)}}
		}
		return &LeafDesc{Tag: "homonym-b", Elems: []*LeafDesc{strLeaf(r), intLeaf(r), strLeaf(r), intLeaf(r), intLeaf(r)}}
	case 15:
		bl := func(*core.Rng) *LeafDesc { return &LeafDesc{Tag: "uint8", I: int64(r.Intn(200))} }
		if r.Bool() {
			return &LeafDesc{Tag: "array4-byte", Elems: many(bl, 4)}
		}
		return &LeafDesc{Tag: "slice-byte", Elems: many(bl, n)}
	}
	return c05Prim(r)
}

var c05Gen = TreeGen{MaxDepth: 3, MaxWidth: 4, MinWidth: 0, Conds: 20, CondStackExpr: 30, CondCondExpr: 10, StackProb: 35, Leaf: c05Leaf}

// flipCase changes the case of the first letter found; ok=false if there is none.
func flipCase(s string) (string, bool) {
	b := []byte(s)
	for i, ch := range b {
		switch {
		case ch >= 'a' && ch <= 'z':
			b[i] = ch - 32
			return string(b), true
		case ch >= 'A' && ch <= 'Z':
			b[i] = ch + 32
			return string(b), true
		}
	}
	return s, false
}

// mutatePrim changes a primitive description into a different value of the same type.
func mutatePrim(l *LeafDesc) {
	switch l.Tag {
	case "nilptr":
		l.Tag, l.I = "int", 7 // nil pointer vs pointer to a value
	case "str", "named-str":
		l.S += "~"
	case "bool", "named-bool":
		l.B = !l.B
	case "float32", "float64", "named-float":
		l.F += 0.5
	default:
		l.I++
	}
}

type c05Site struct {
	name   string
	pos    int // position inside a composite leaf (-1 otherwise)
	apply  func()
	nonPos bool
}

// c05Sites lists every single-point mutation of the tree (each apply mutates the tree in place; use on a clone).
func c05Sites(root *TNode) []c05Site {
	var sites []c05Site
	var visit func(n *TNode, path string)
	visit = func(n *TNode, path string) {
		switch n.T {
		case "leaf":
			l := n.Leaf
			if len(l.Elems) == 0 {
				sites = append(sites, c05Site{name: path + ":leaf-value", pos: -1, apply: func() { mutatePrim(l) }})
				if l.Tag == "str" {
					if _, ok := flipCase(l.S); ok {
						sites = append(sites, c05Site{name: path + ":leaf-case", pos: -1, apply: func() { l.S, _ = flipCase(l.S) }})
					}
				}
				return
			}
			for i := range l.Elems {
				i := i
				if l.Tag == "map-int-str" {
					sites = append(sites, c05Site{name: fmt.Sprintf("%s:%s-value[%d]", path, l.Tag, i), pos: i, apply: func() { l.Keys[i] += "~" }})
					continue
				}
				sites = append(sites, c05Site{name: fmt.Sprintf("%s:%s[%d]", path, l.Tag, i), pos: i, apply: func() { mutatePrim(l.Elems[i]) }})
			}
			if l.Tag == "map-str-int" || l.Tag == "map-str-any" {
				i := len(l.Keys) - 1
				sites = append(sites, c05Site{name: path + ":" + l.Tag + "-key", pos: i, apply: func() { l.Keys[i] += "~" }})
			}
			if l.Tag == "slice-int" || l.Tag == "slice-uintptr" || l.Tag == "slice-str" || l.Tag == "slice-any" || l.Tag == "slice-ptr" {
				sites = append(sites, c05Site{name: path + ":" + l.Tag + "-longer", pos: len(l.Elems), apply: func() { l.Elems = append(l.Elems, l.Elems[0].Clone()) }})
			}
		case "stack":
			sites = append(sites, c05Site{name: path + ":kind", pos: -1, apply: func() {
				for _, k := range Kinds {
					if k != n.Kind {
						n.Kind = k
						break
					}
				}
			}})
			sites = append(sites, c05Site{name: path + ":capacity", pos: -1, apply: func() {
				if n.Cap == 0 {
					n.Cap = len(n.Kids) + 2
				} else {
					n.Cap++
				}
			}})
			if n.Cap == 0 || len(n.Kids) < n.Cap {
				sites = append(sites, c05Site{name: path + ":one-more", pos: -1, apply: func() {
					n.Kids = append(n.Kids, &TNode{T: "leaf", Leaf: &LeafDesc{Tag: "str", S: "extra"}})
				}})
			}
			if len(n.Kids) > 0 {
				sites = append(sites, c05Site{name: path + ":one-fewer", pos: -1, apply: func() { n.Kids = n.Kids[:len(n.Kids)-1] }})
			}
			for i := 0; i+1 < len(n.Kids); i++ {
				i := i
				if flatJSON(n.Kids[i]) != flatJSON(n.Kids[i+1]) {
					sites = append(sites, c05Site{name: fmt.Sprintf("%s:swap[%d,%d]", path, i, i+1), pos: -1, apply: func() { n.Kids[i], n.Kids[i+1] = n.Kids[i+1], n.Kids[i] }})
				}
			}
			for i, k := range n.Kids {
				visit(k, fmt.Sprintf("%s/%d", path, i))
			}
		case "cond":
			sites = append(sites, c05Site{name: path + ":keyword", pos: -1, apply: func() { n.Kw += "x" }})
			if _, ok := flipCase(n.Kw); ok {
				sites = append(sites, c05Site{name: path + ":keyword-case", pos: -1, apply: func() { n.Kw, _ = flipCase(n.Kw) }})
			}
			if n.Op != nil && n.Op.User {
				if _, ok := flipCase(n.Op.Txt); ok {
					sites = append(sites, c05Site{name: path + ":operator-case", pos: -1, apply: func() { n.Op.Txt, _ = flipCase(n.Op.Txt) }})
				}
			}
			if n.Op == nil {
				// an operator-less Condition against the same Condition WITH an operator
				sites = append(sites, c05Site{name: path + ":operator-added", pos: -1, apply: func() { n.Op = &OpDesc{Code: 1} }})
			} else {
				sites = append(sites, c05Site{name: path + ":operator", pos: -1, apply: func() {
					if n.Op.User {
						n.Op.Txt += "="
					} else {
						n.Op.Code = n.Op.Code%6 + 1
					}
				}})
				sites = append(sites, c05Site{name: path + ":operator-removed", pos: -1, apply: func() { n.Op = nil }})
				if n.Op.User {
					sites = append(sites, c05Site{name: path + ":operator-context", pos: -1, apply: func() { n.Op.Ctx += "2" }})
				}
			}
			if n.Expr != nil {
				visit(n.Expr, path+"/expr")
			}
		}
	}
	visit(root, "")
	return sites
}

func c05Tier(tier string) int {
	if tier == "thorough" {
		return 1000000
	}
	return 20000
}

// c05Huge: one flat stack of 513..1100 leaves (well past any chunk, span or small-array regime, with lengths that are
// not multiples of 8 or 16), two independent instances equal, and single leaves mutated at the first, some middle and each
// of the last nine positions.
func c05Huge(c *core.Ctx) {
	r := c.Rng
	n := r.Range(513, 1100)
	if r.Bool() {
		n |= 1
	}
	kind := Kinds[r.Intn(5)]
	mk := func(mut int) stackage.Stack {
		s := NewStack(kind, 0)
		vals := make([]any, n)
		for i := range vals {
			vals[i] = i * 3
			if i%97 == 5 {
				vals[i] = fmt.Sprintf("s%d", i)
			}
			if i == mut {
				vals[i] = -1 - i
			}
		}
		s.Push(vals...)
		return s
	}
	A, B := mk(-1), mk(-1)
	desc := map[string]any{"len": n, "kind": kind}
	if e1, e2 := A.IsEqual(B), B.IsEqual(A); e1 != nil || e2 != nil {
		c.Violatef("equal-rejected:huge", desc, "two independently built %d-element stacks compare as %v / %v", n, e1, e2)
		return
	}
	pos := []int{0, 1, n / 2, n/2 + 1, r.Intn(n)}
	for i := 1; i <= 9; i++ {
		pos = append(pos, n-i)
	}
	for _, p := range pos {
		C := mk(p)
		for di, e := range []error{A.IsEqual(C), C.IsEqual(A)} {
			if e == nil {
				c.Violatef("difference-missed:huge", desc, "a %d-element stack and a copy differing only at position %d compare equal (direction %d)", n, p, di)
				return
			}
		}
	}
	c.Count("huge-stacks")
	c.NontrivialStr(fmt.Sprintf("huge|%d|%s", n, kind))
}

// c05Aliased: comparands that are not independent copies but share storage - a slice leaf against a re-slice of itself
// (one element fewer, same start), a slice against itself (equal). "Differ in length" holds whatever the two share.
func c05Aliased(c *core.Ctx) {
	r := c.Rng
	n := r.Range(2, 9)
	base := make([]int, n)
	for i := range base {
		base[i] = r.Intn(1000)
	}
	strs := []string{"p", "q", "r", "s"}
	kind := Kinds[r.Intn(5)]
	mk := func(leaf any) stackage.Stack {
		return NewStack(kind, 0).Push("lead", stackage.Or().Push(stackage.Cond("ports", stackage.Eq, leaf), leaf), "tail")
	}
	desc := map[string]any{"len": n, "kind": kind}
	for _, pair := range [][2]any{{base, base[:n-1]}, {base[:n-1], base}, {strs, strs[:3]}, {base, base[:0]}} {
		a, b := mk(pair[0]), mk(pair[1])
		if e1, e2 := a.IsEqual(b), b.IsEqual(a); e1 == nil || e2 == nil {
			c.Violatef("difference-missed:reslice", desc, "a slice leaf and a shorter re-slice of the very same array compare as %v / %v", e1, e2)
			return
		}
	}
	if e := mk(base).IsEqual(mk(base[:n])); e != nil {
		c.Violatef("equal-rejected:reslice", desc, "a slice leaf and an equally long re-slice of it compare as %v", e)
		return
	}
	// a struct leaf with exported structs embedded three levels deep: every field at every level counts
	mkU := func(id, rev int, tag, name string) DeepUser {
		return DeepUser{DeepEntity{DeepAudited{DeepBase{id, rev, tag}}}, name}
	}
	u0 := mk(mkU(1, 2, "t", "n"))
	for i, mu := range []DeepUser{mkU(9, 2, "t", "n"), mkU(1, 9, "t", "n"), mkU(1, 2, "T", "n"), mkU(1, 2, "t", "N")} {
		um := mk(mu)
		pm := mk(&mu)
		u0p := mk(func() *DeepUser { v := mkU(1, 2, "t", "n"); return &v }())
		if e1, e2, e3 := u0.IsEqual(um), um.IsEqual(u0), u0p.IsEqual(pm); e1 == nil || e2 == nil || e3 == nil {
			c.Violatef("difference-missed:deep-embedded-field", desc, "struct leaves with exported structs embedded three levels deep, differing in field #%d only, compare as %v / %v / %v", i, e1, e2, e3)
			return
		}
	}
	if e := u0.IsEqual(mk(mkU(1, 2, "t", "n"))); e != nil {
		c.Violatef("equal-rejected:deep-embedded", desc, "equal deep-embedded struct leaves compare as %v", e)
		return
	}
	// a struct leaf with very many exported fields: the seventieth (or three-hundredth) counts like the first
	for _, nf := range []int{70, 300} {
		fields := make([]reflect.StructField, nf)
		for i := range fields {
			fields[i] = reflect.StructField{Name: fmt.Sprintf("F%d", i), Type: reflect.TypeOf(0)}
		}
		st := reflect.StructOf(fields)
		mkW := func(changed int) any {
			v := reflect.New(st).Elem()
			for i := 0; i < nf; i++ {
				v.Field(i).SetInt(int64(1000 + i))
			}
			if changed >= 0 {
				v.Field(changed).SetInt(-1)
			}
			return v.Interface()
		}
		w0 := mk(mkW(-1))
		if e := w0.IsEqual(mk(mkW(-1))); e != nil {
			c.Violatef("equal-rejected:wide-struct", desc, "equal struct leaves of %d exported fields compare as %v", nf, e)
			return
		}
		for _, i := range []int{0, 31, 32, 62, 63, 64, 65, nf - 1, 255 % nf, 256 % nf} {
			wm := mk(mkW(i))
			if e1, e2 := w0.IsEqual(wm), wm.IsEqual(w0); e1 == nil || e2 == nil {
				c.Violatef("difference-missed:wide-struct-field", desc, "struct leaves of %d exported fields differing in field #%d only compare as %v / %v", nf, i, e1, e2)
				return
			}
		}
	}
	// a number against not-a-number (on one side only), wherever a float can sit
	nan := math.NaN()
	for i, pair := range [][2]any{
		{1.5, nan}, {math.Inf(1), nan}, {float32(1.5), float32(nan)}, {[]float64{1, 1.5}, []float64{1, nan}}, {[2]float64{1.5, 2}, [2]float64{nan, 2}},
		{map[string]float64{"k": 1.5}, map[string]float64{"k": nan}}, {PubStruct{A: 1, B: "b", F: 1.5}, PubStruct{A: 1, B: "b", F: nan}},
		{func() any { f := 1.5; p := &f; return &p }(), func() any { f := nan; p := &f; return &p }()},
		{stackage.Cond("k", stackage.Eq, 1.5), stackage.Cond("k", stackage.Eq, nan)},
	} {
		a, b := mk(pair[0]), mk(pair[1])
		if e1, e2 := a.IsEqual(b), b.IsEqual(a); e1 == nil || e2 == nil {
			c.Violatef("difference-missed:number-vs-NaN", desc, "leaves differing in one float (a number on one side, NaN on the other; shape #%d) compare as %v / %v", i, e1, e2)
			return
		}
	}
	c.Count("aliased-and-deep-embedded")
}

type DeepBase struct {
	ID, Rev int
	Tag     string
}
type DeepAudited struct{ DeepBase }
type DeepEntity struct{ DeepAudited }
type DeepUser struct {
	DeepEntity
	Name string
}

func c05Run(c *core.Ctx, idx int) {
	if idx%400 == 399 {
		c05Huge(c)
		return
	}
	if idx%400 == 199 {
		c05Aliased(c)
		return
	}
	r := c.Rng
	var base *TNode
	condRoot := idx%6 == 5
	if condRoot {
		g := c05Gen
		base = g.genCond(r, 2)
	} else {
		base = c05Gen.Gen(r)
		if r.Chance(1, 5) {
			base.Cap = len(base.Kids) + r.Intn(3)
		}
		if r.Chance(1, 6) {
			// some Conditions never received an operator
			base.Walk(func(n *TNode) {
				if n.T == "cond" && r.Chance(1, 2) {
					n.Op = nil
				}
			})
		}
		if r.Chance(1, 4) {
			// a shared presentation symbol must not hide a difference in kind
			sym := []string{"#", "~", "&&"}[r.Intn(3)]
			base.Walk(func(n *TNode) {
				if n.T == "stack" && n.Kind != "LIST" && r.Chance(2, 3) {
					n.Sym = sym // (LIST stacks ignore symbols)
				}
			})
		}
	}
	SpiceNoHuge = true
	defer func() { SpiceNoHuge = false }()
	if SpiceErrs(uint64(c.Seed), idx, base) {
		c.Count("trees.with-left-over-errors")
	}
	if sp := core.NewRng(core.Mix(uint64(c.Seed)+0x5b1ce, uint64(idx))); !condRoot && sp.Chance(1, 6) {
		// (own PRNG stream, so that the rest of the case is what it was without this step)
		if did := Spice(sp, base, sp.Chance(1, 2), sp.Chance(1, 2), sp.Chance(1, 2)); did != "" {
			c.Count("trees.spiced." + strings.ReplaceAll(strings.TrimSpace(did), " ", "+"))
		}
	}
	type inst struct {
		s  stackage.Stack
		cd stackage.Condition
	}
	build := func(n *TNode) inst {
		if condRoot {
			return inst{cd: n.BuildCond()}
		}
		return inst{s: n.BuildStack()}
	}
	eq1 := func(x, y inst) (err error, pan bool, msg, site string) {
		pan, msg, site = Guard(func() {
			if condRoot {
				err = x.cd.IsEqual(y.cd)
			} else {
				err = x.s.IsEqual(y.s)
			}
		})
		return
	}
	// every third case asks each question twice: the verdict is a function of the two values, not of what was compared
	// before (the second answer is the one judged; a first answer that differs is reported as such)
	twice := idx%3 == 1
	eq := func(x, y inst) (err error, pan bool, msg, site string) {
		err, pan, msg, site = eq1(x, y)
		if !twice || pan {
			return
		}
		if idx%2 == 0 {
			// in between, two unrelated little trees (an unequal pair, then an equal pair) are compared
			u1 := stackage.And().Push("u", []int{1, 2, 3}, stackage.Cond("uk", stackage.Eq, map[string]int{"a": 1}))
			u2 := stackage.And().Push("u", []int{1, 2, 4}, stackage.Cond("uk", stackage.Eq, map[string]int{"a": 1}))
			u3 := stackage.And().Push("u", []int{1, 2, 3}, stackage.Cond("uk", stackage.Eq, map[string]int{"a": 1}))
			var e12, e13 error
			if p, _, _ := Guard(func() { e12, e13 = u1.IsEqual(u2), u1.IsEqual(u3) }); p || e12 == nil || e13 != nil {
				c.Violatef("unrelated-pair", map[string]any{"tree": base}, "between two questions about %s: IsEqual of an unequal little pair returned %v, of an equal one %v (panic %v)", base.Brief(), e12, e13, p)
			}
			c.Count("questions.with-unrelated-comparisons-in-between")
		}
		err2, pan2, msg2, site2 := eq1(x, y)
		if pan2 {
			return err2, pan2, msg2, site2
		}
		if (err == nil) != (err2 == nil) {
			c.Violatef("verdict-changes-on-repetition", map[string]any{"tree": base, "condition_root": condRoot}, "the same IsEqual call on unchanged values answered %v the first time and %v the second time; base %s", err, err2, base.Brief())
		}
		return err2, false, "", ""
	}
	A, B := build(base), build(base)
	desc := func(site string) map[string]any {
		return map[string]any{"tree": base, "mutation": site, "condition_root": condRoot}
	}
	for _, pair := range [][2]inst{{A, B}, {B, A}} {
		err, pan, msg, site := eq(pair[0], pair[1])
		if pan {
			c.Violatef("panic:"+site, desc(""), "IsEqual between two independently built equal trees panicked: %s on %s", msg, base.Brief())
			return
		}
		if err != nil {
			c.Violatef("equal-rejected:"+c05LeafTags(base), desc(""), "IsEqual between two independently built copies returned %q for %s", err.Error(), base.Brief())
			return
		}
	}
	c.Count("equal-pairs")
	sites := c05Sites(base)
	hasComposite := false
	base.Walk(func(n *TNode) {
		if n.T == "leaf" && len(n.Leaf.Elems) >= 2 {
			hasComposite = true
		}
	})
	for si := range sites {
		mut := base.Clone()
		ms := c05Sites(mut)
		if len(ms) != len(sites) {
			c.Inconclusive("mutation sites of a clone differ from the original (harness bug)")
			return
		}
		ms[si].apply()
		if core.JSON(mut) == core.JSON(base) {
			continue
		}
		C := build(mut)
		name := ms[si].name
		cls := name[lastColon(name)+1:]
		for pi, pair := range [][2]inst{{A, C}, {C, A}, {B, C}, {C, B}} {
			err, pan, msg, site := eq(pair[0], pair[1])
			if pan {
				c.Violatef("panic:"+site+":"+cls, desc(name), "IsEqual panicked comparing a tree with its %s mutant: %s", name, msg)
				return
			}
			if err == nil {
				dir := []string{"A~C", "C~A", "B~C", "C~B"}[pi]
				c.Violatef("difference-missed:"+cls, desc(name), "IsEqual (%s) returned nil although the trees differ at %s; base %s", dir, name, base.Brief())
				return
			}
		}
		c.Count("mutants")
		c.Count("mutants." + classOnly(cls))
		if hasComposite && ms[si].pos > 0 {
			c.NontrivialStr(core.JSON(base) + "|" + name)
			c.Count("mutants.composite-beyond-first-position")
		}
	}
	if c.WantSample() && hasComposite && idx%307 == 3 {
		c.Sample(map[string]any{"tree": base.Brief(), "mutation_sites": len(sites)})
	}
}

// flatJSON describes a node modulo pointer depth: IsEqual dereferences pointers of any depth before comparing,
// so a leaf and a pointer chain to an equal leaf are NOT a difference.
func flatJSON(n *TNode) string {
	c := n.Clone()
	c.Walk(func(x *TNode) {
		if x.T == "leaf" && x.Leaf.Tag == "ptr" {
			x.Leaf = x.Leaf.Elems[0]
		}
		// presentation settings are not among the differences the statement obliges IsEqual to report
		x.Sym, x.Paren, x.Fold, x.NoPad, x.LeadOnce, x.Delim, x.Enc, x.Neg, x.Fwd = "", false, false, false, false, "", nil, false, false
		x.Shared, x.Mutex = false, false // (how many positions hold one instance is no difference of content either)
		x.LeftErr = false                // (nor is an error some earlier call left behind)
	})
	return core.JSON(c)
}

func lastColon(s string) int {
	for i := len(s) - 1; i >= 0; i-- {
		if s[i] == ':' {
			return i
		}
	}
	return -1
}

// classOnly strips positions: "slice-int[2]" -> "slice-int[]"
func classOnly(s string) string {
	out := []byte{}
	skip := false
	for i := 0; i < len(s); i++ {
		if s[i] == '[' {
			skip = true
			out = append(out, '[')
			continue
		}
		if s[i] == ']' {
			skip = false
		}
		if !skip {
			out = append(out, s[i])
		}
	}
	return string(out)
}

func c05LeafTags(n *TNode) string {
	tag := "plain"
	n.Walk(func(x *TNode) {
		if x.T == "leaf" && len(x.Leaf.Elems) > 0 {
			tag = x.Leaf.Tag
		}
	})
	return tag
}

func init() {
	core.Register(&core.Monitor{
		ID:    "C05",
		Cases: c05Tier,
		Run:   c05Run,
		Rule: "metamorphic: a random tree description (depth <= 3; Conditions with built-in/user operators and primitive/Stack/Condition expressions; leaves = primitives of several widths, pointers of depth 1..3 to primitives, " +
			"[]int/[]string/[]any/[]*int, [3]int/[2]string, map[string]int/map[string]any/map[int]string, structs with exported, pointer and unexported fields, a struct with slice and array fields) is instantiated twice (A, B: fresh pointers, slices, maps) " +
			"-> IsEqual must be nil both ways; then EVERY single-point mutation of the description is instantiated (C): a leaf value, the letter case of a string leaf / keyword / user operator text, each position of each composite leaf (incl. slices of pointers with nil elements at fixed indices), a map key, one slice element more, a Condition keyword/operator/operator context/expression, " +
			"a stack kind, capacity, one element more/fewer, a swap of two different siblings -> A~C, C~A, B~C, C~B must all be errors; every sixth case compares Condition roots. No call may panic. " +
			"non-trivial = mutation at a position > 0 of a composite leaf of length >= 2; distinct = (tree, mutation site).",
		Assumptions: []string{"composite leaves hold primitives or pointers to primitives (nested composites such as slices of slices are outside the statement's leaf grammar)", "NaN leaves are not generated (NaN differs from itself)"},
		Floors: func(string) map[string]int64 {
			return map[string]int64{"equal-pairs": 3000, "aliased-and-deep-embedded": 12, "questions.with-unrelated-comparisons-in-between": 50000, "cases.with-bystander-goroutines": 300, "mutants": 30000, "mutants.composite-beyond-first-position": 2000, "mutants.kind": 1000, "mutants.operator": 500, "mutants.swap[]": 500, "mutants.keyword-case": 500, "mutants.leaf-case": 500, "mutants.slice-ptr[]": 300}
		},
	})
}
