package mon

import (
	"errors"
	"log"
	"sync/atomic"
	"time"

	stackage "github.com/JesseCoretta/go-stackage"
	"verifharness/core"
)

// First-sight order (core.ProcWarm): before the first case of a process the library is shown either live values of every
// alias type (mode 1), or zero values / typed nil pointers of every alias type (mode 2), or nothing (mode 0), through the
// entry points that classify element values. Correct code classifies a value by looking at the value; code that remembers
// a verdict per type is met in both orders in every run.
var procLogging bool

// RestoreProcDefaults puts the package defaults back to what the process mode prescribes (for cases that change them).
func RestoreProcDefaults() {
	if procLogging {
		w := log.New(NullWriter{}, "", 0)
		stackage.SetDefaultStackLogger(w)
		stackage.SetDefaultConditionLogger(w)
		stackage.SetDefaultStackLogLevel(stackage.AllLogLevels)
		stackage.SetDefaultConditionLogLevel(stackage.AllLogLevels)
		return
	}
	stackage.SetDefaultStackLogger("none")
	stackage.SetDefaultConditionLogger("none")
	stackage.SetDefaultStackLogLevel(stackage.NoLogLevels)
	stackage.SetDefaultConditionLogLevel(stackage.NoLogLevels)
}

func procWarm(mode int) {
	if mode >= 3 {
		procLogging = true
		RestoreProcDefaults()
		mode -= 3
	}
	if mode == 0 {
		return
	}
	var vals []any
	if mode == 1 {
		as, ss, xs := AStack(stackage.And().Push("w")), SStack(stackage.Or().Push("w")), XStack(stackage.List().Push("w"))
		ac, sc, xc := ACond(stackage.Cond("k", stackage.Eq, "v")), SCond(stackage.Cond("k", stackage.Eq, "v")), XCond(stackage.Cond("k", stackage.Eq, "v"))
		ns, nc := stackage.Not().Push("w"), stackage.Cond("k", stackage.Ne, "v")
		pas, pac := &as, &ac
		vals = []any{as, ss, xs, ac, sc, xc, &as, &ss, &xs, &ac, &sc, &xc, &pas, &pac, ns, nc, &ns, &nc,
			// ... and live values of the leaf types that carry methods of their own
			Name("shown"), time.Duration(1500), UserOp{"~=", "ctx"}, EnumOp(1), errors.New("e"), StrStruct{Name: "n"}}
	} else {
		var pas *AStack
		var pac *ACond
		vals = []any{AStack{}, SStack{}, XStack{}, ACond{}, SCond{}, XCond{}, (*AStack)(nil), (*SStack)(nil), (*XStack)(nil),
			(*ACond)(nil), (*SCond)(nil), (*XCond)(nil), &pas, &pac, (**AStack)(nil), (*stackage.Stack)(nil), (*stackage.Condition)(nil),
			&AStack{}, &ACond{}, stackage.Stack{}, stackage.Condition{},
			// ... and ZERO values / typed nils of the leaf types that carry methods of their own
			Name(""), time.Duration(0), UserOp{}, EnumOp(0), (*Name)(nil), StrStruct{}, (*StrStruct)(nil), UnitOp{}}
	}
	for _, v := range vals {
		v := v
		Guard(func() {
			stackage.ConvertStack(v)
			stackage.ConvertCondition(v)
			s := stackage.And().Push("a", v)
			_ = s.String()
			s.IsNesting()
			s.Traverse(1, 0)
			s.Unmarshal()
			s.IsEqual(stackage.And().Push("a", v))
			stackage.And().SetNoNesting(true).Push(v)
			s.Less(0, 1)
			stackage.Cond(v, stackage.Eq, "as-keyword")
			cd := stackage.Cond("k", stackage.Eq, v)
			_ = cd.String()
			cd.IsNesting()
			cd.Len()
			stackage.List().Push("x").Transfer(v)
			s.Defrag()
			s.Reveal()
		})
	}
}

func init() { core.ProcWarm = procWarm }

// NullWriter swallows what is written to it without being io.Discard (which the library recognises as "logging off").
type NullWriter struct{}

var nullLines, nullBytes atomic.Int64

func (NullWriter) Write(p []byte) (int, error) {
	nullLines.Add(1)
	nullBytes.Add(int64(len(p)))
	return len(p), nil
}

func init() {
	core.ProcCounters = func() map[string]int64 {
		return map[string]int64{"process.log-events-emitted-by-the-library": nullLines.Load(), "process.log-bytes-emitted-by-the-library": nullBytes.Load()}
	}
}
