package mon

import (
	"fmt"
	"strings"

	stackage "github.com/JesseCoretta/go-stackage"
	"verifharness/core"
)

// C13 — no-nesting keeps Stacks out; CanNest and IsNesting tell the truth.

type c13Val struct {
	v       any
	isStack bool
	desc    string
}

func c13Value(r *core.Rng, next func() any) c13Val {
	inner := func() stackage.Stack {
		in := NewStack(Kinds[r.Intn(5)], 0).Push(next())
		if r.Chance(1, 4) {
			// the OFFERED stack's own option says nothing about whether the receiver takes it
			in.SetNoNesting(true)
		}
		return in
	}
	switch r.Intn(13) {
	case 11:
		// a Stack (alias) at the far end of a long chain of pointers is a Stack all the same
		d := []int{3, 9, 12, 64, 65, 70, 300}[r.Intn(7)]
		if r.Bool() {
			return c13Val{DeepPtr(AStack(inner()), d), true, fmt.Sprintf("%d pointers to an AStack", d)}
		}
		return c13Val{DeepPtr(inner(), d), true, fmt.Sprintf("%d pointers to a Stack", d)}
	case 0:
		return c13Val{inner(), true, "Stack"}
	case 1:
		return c13Val{AStack(inner()), true, "AStack"}
	case 2:
		a := AStack(inner())
		return c13Val{&a, true, "*AStack"}
	case 3:
		return c13Val{SStack(inner()), true, "SStack"}
	case 4:
		a := SStack(inner())
		return c13Val{&a, true, "*SStack"}
	case 5:
		return c13Val{stackage.Cond("kw", stackage.Eq, next()), false, "Cond(prim)"}
	case 6:
		return c13Val{stackage.Cond("kw", stackage.Ne, inner()), false, "Cond(Stack)"}
	case 7:
		return c13Val{ACond(stackage.Cond("kw", stackage.Ge, next())), false, "ACond"}
	case 8:
		return c13Val{nil, false, "nil"}
	case 9:
		return c13Val{NewStack(Kinds[r.Intn(5)], 0), true, "Stack(empty)"}
	case 10:
		// a zero-valued alias and a nil pointer to one convert to nothing: ordinary values, not Stacks
		if r.Bool() {
			return c13Val{AStack{}, false, "AStack{}"}
		}
		return c13Val{(*AStack)(nil), false, "(*AStack)(nil)"}
	}
	v := next()
	return c13Val{v, false, Show(v)}
}

func c13Tier(tier string) int {
	if tier == "thorough" {
		return 10000000
	}
	return 200000
}

func c13Run(c *core.Ctx, idx int) {
	r := c.Rng
	next := uniqueVals()
	if idx%5 == 4 {
		c13Cond(c, r, next)
		return
	}
	if idx%1000 == 7 {
		// the one Stack nobody thinks of offering: the receiver itself. CanNest() speaks about "a nested Stack", whichever.
		// (Nothing here descends into the result, and the cycle is taken apart again at once: what the library does when
		// it WALKS a self-containing stack is outside every statement.)
		s := NewStackArgs(Kinds[r.Intn(5)])
		forms := []string{"native", "*Stack", "AStack"}
		f := r.Intn(3)
		var self any = s
		switch f {
		case 1:
			self = &s
		case 2:
			self = AStack(s)
		}
		nn := r.Chance(1, 3)
		if nn {
			s.SetNoNesting(true)
		}
		can := s.CanNest()
		s.Push("a", self, 42)
		l := s.Len()
		if l == 3 {
			s.Remove(1)
		}
		want := 3
		if nn {
			want = 2
		}
		if l != want || can == nn {
			c.Violatef("self", map[string]any{"form": forms[f], "no_nesting": nn}, "CanNest()=%v (no-nesting %v); Push(\"a\", <the receiver itself as %s>, 42) left Len %d, expected %d", can, nn, forms[f], l, want)
			return
		}
		c.Count("receiver-offered-to-itself")
		return
	}
	kind := Kinds[r.Intn(5)]
	capacity := 0
	if r.Chance(1, 4) {
		capacity = r.Range(2, 9) // skipped Stacks must not use up room
	}
	s := NewStack(kind, capacity)
	m := &ListModel{Cap: capacity}
	if r.Chance(1, 3) {
		s.SetFIFO(true)
		m.Fifo = true
	}
	bit := false
	var log []string
	fail := func(key, msg string) {
		c.Violate(key, fmt.Sprintf("%s on %s after [%s]", msg, kind, strings.Join(log, "; ")), map[string]any{"kind": kind, "ops": log})
	}
	observe := func() bool {
		if a, d := ObserveList(s, m); a != "" {
			fail("content:"+a, d)
			return false
		}
		if got := s.CanNest(); got != !bit {
			fail("CanNest", fmt.Sprintf("CanNest()=%v while the no-nesting option is %v", got, bit))
			return false
		}
		want := false
		for _, v := range m.Items {
			if _, ok := AsStack(v); ok {
				want = true
			}
		}
		if got := s.IsNesting(); got != want {
			fail("IsNesting", fmt.Sprintf("IsNesting()=%v but stack elements present=%v", got, want))
			return false
		}
		return true
	}
	flips, filtered, stored := 0, 0, 0
	if !observe() {
		return
	}
	for step := 0; step < 10; step++ {
		if r.Chance(2, 5) {
			switch r.Intn(5) {
			case 0:
				s.SetNoNesting(true)
				bit = true
				log = append(log, "SetNoNesting(true)")
			case 1:
				s.SetNoNesting(false)
				bit = false
				log = append(log, "SetNoNesting(false)")
			case 2:
				s.SetNoNesting()
				bit = !bit
				log = append(log, "SetNoNesting()")
			case 3:
				s.NoNesting()
				bit = !bit
				log = append(log, "NoNesting()")
			default:
				s.NoNesting(true)
				bit = true
				log = append(log, "NoNesting(true)")
			}
			flips++
			c.Count("option-switches")
		} else {
			n := r.Range(1, 5)
			batch := make([]any, n)
			var ds []string
			for i := range batch {
				v := c13Value(r, next)
				batch[i] = v.v
				ds = append(ds, v.desc)
				if v.isStack && bit {
					filtered++
					c.Count("stack-values-offered-while-set")
				} else if !m.Full() {
					m.Items = append(m.Items, v.v)
					stored++
				}
				if v.isStack && !bit {
					c.Count("stack-values-offered-while-clear")
				}
			}
			offered := append([]any{}, batch...)
			s.Push(batch...)
			log = append(log, "Push("+strings.Join(ds, ",")+")")
			c.Count("push-batches")
			// the batch is the caller's: skipping a value does not mean rewriting the slice it came in
			for i := range batch {
				if !SameValue(batch[i], offered[i]) {
					fail("caller-batch-rewritten", fmt.Sprintf("after Push(batch...) position %d of the caller's slice holds %s, it was %s", i, Show(batch[i]), Show(offered[i])))
					return
				}
			}
		}
		if r.Chance(1, 6) && m.Len() > 0 {
			// taking an element out (LIFO or FIFO) says nothing about the elements that stay - nested Stacks that were
			// accepted earlier included, whatever the option is now
			gv, gok := s.Pop()
			wv, wok := m.Pop()
			log = append(log, "Pop()")
			if gok != wok || !SameValue(gv, wv) {
				fail("Pop", fmt.Sprintf("Pop()=(%s,%v), model (%s,%v)", Show(gv), gok, Show(wv), wok))
				return
			}
			c.Count("pops")
		}
		if !observe() {
			return
		}
	}
	c.Count("stack-histories")
	if flips >= 2 && filtered >= 1 && stored >= 2 {
		c.NontrivialStr(kind + "|" + strings.Join(log, ";"))
	}
	if c.WantSample() && filtered > 0 && idx%97 == 0 {
		c.Sample(map[string]any{"kind": kind, "ops": log, "final_len": m.Len()})
	}
}

func c13Cond(c *core.Ctx, r *core.Rng, next func() any) {
	var cd stackage.Condition
	var log []string
	if r.Bool() {
		cd = stackage.Cond("kw", stackage.Eq, next())
		log = append(log, "Cond(kw,=,prim)")
	} else {
		cd.Init()
		cd.SetKeyword("kw").SetOperator(stackage.Eq)
		log = append(log, "Init();SetKeyword;SetOperator")
	}
	cur := cd.Expression()
	bit := false
	refused := 0
	for step := 0; step < 8; step++ {
		if r.Chance(2, 5) {
			switch r.Intn(4) {
			case 0:
				cd.SetNoNesting(true)
				bit = true
				log = append(log, "SetNoNesting(true)")
			case 1:
				cd.SetNoNesting(false)
				bit = false
				log = append(log, "SetNoNesting(false)")
			case 2:
				cd.SetNoNesting()
				bit = !bit
				log = append(log, "SetNoNesting()")
			default:
				cd.NoNesting()
				bit = !bit
				log = append(log, "NoNesting()")
			}
		} else {
			v := c13Value(r, next)
			if v.v == nil {
				continue
			}
			cd.SetExpression(v.v)
			log = append(log, "SetExpression("+v.desc+")")
			if v.isStack && bit {
				refused++
				c.Count("cond.stack-expression-refused")
			} else {
				cur = v.v
			}
		}
		fail := func(key, msg string) {
			c.Violate("cond:"+key, fmt.Sprintf("%s after [%s]", msg, strings.Join(log, "; ")), map[string]any{"ops": log})
		}
		if got := cd.Expression(); !SameValue(got, cur) {
			fail("Expression", fmt.Sprintf("Expression()=%s, expected %s", Show(got), Show(cur)))
			return
		}
		if got := cd.CanNest(); got != !bit {
			fail("CanNest", fmt.Sprintf("CanNest()=%v while the no-nesting option is %v", got, bit))
			return
		}
		_, want := AsStack(cur)
		if got := cd.IsNesting(); got != want {
			fail("IsNesting", fmt.Sprintf("IsNesting()=%v but expression is a stack=%v", got, want))
			return
		}
	}
	c.Count("condition-histories")
	if refused > 0 {
		c.NontrivialStr("cond|" + strings.Join(log, ";"))
	}
}

func init() {
	core.Register(&core.Monitor{
		ID:    "C13",
		Cases: c13Tier,
		Run:   c13Run,
		Rule: "random histories: 10 steps of push batches (1..5 values drawn from native Stacks, empty Stacks, alias values, pointers to aliases, aliases with a String method, Conditions with primitive/Stack expressions, Condition aliases, primitives, nil) " +
			"interleaved with SetNoNesting(true|false|toggle)/NoNesting() on Stacks of every kind; every fifth case drives a Condition (SetExpression x option switches). After every step: content identity against the list model " +
			"(non-Stack values of each batch kept in order, Stacks skipped while the option is set, earlier elements untouched), CanNest()==!option, IsNesting()==exists Stack element / Stack expression. " +
			"non-trivial = history with >= 2 option switches, >= 1 filtered Stack and >= 2 stored values (Stack side) or >= 1 refused Stack expression (Condition side); distinct = hash of the literal history.",
		Assumptions: []string{"no push policy, no read-only flag (those interact with acceptance and are covered by C14/C09); a quarter of the stacks has a capacity, under which skipped Stacks must not consume room", "zero-valued native Stack{} elements are not offered (the statement does not say whether they are 'a Stack'); zero-valued aliases and nil alias pointers convert to nothing and count as ordinary values"},
		Floors: func(string) map[string]int64 {
			return map[string]int64{"stack-values-offered-while-set": 1000, "stack-values-offered-while-clear": 1000, "option-switches": 1000, "receiver-offered-to-itself": 50, "cases.with-bystander-goroutines": 3000, "cond.stack-expression-refused": 100}
		},
	})
}
