package mon

import (
	"errors"
	"fmt"
	"math"
	"reflect"
	"strings"
	"sync"
	"time"
	"unsafe"

	stackage "github.com/JesseCoretta/go-stackage"
	"verifharness/core"
)

// C08 — no index and no element value can panic or corrupt a Stack.

// ---------------------------------------------------------------- awkward values

type privStruct struct {
	a int
	b string
	C []int
}

type privEmb struct{ V int }

// PubEmb is the exported twin of privEmb.
type PubEmb struct{ V int }

type embPriv struct {
	privEmb
	N int
}

type embPub struct {
	PubEmb
	N int
}

type nestStruct struct {
	S stackage.Stack
	P *int
}

// SelfPtr is a pointer type defined in terms of itself: it has no bottom to dereference to.
type SelfPtr *SelfPtr

// EmbStack / EmbCond embed the library types: they inherit every method (and satisfy the library's interfaces) without
// being convertible aliases.
type EmbStack struct{ stackage.Stack }
type EmbCond struct{ stackage.Condition }

// Awkward is one catalogue entry: a named constructor (fresh value per use).
type Awkward struct {
	Name string
	New  func() any
}

// AwkwardValues is the catalogue of hostile element / argument values.
var AwkwardValues = []Awkward{
	{"nil", func() any { return nil }},
	{"(*int)(nil)", func() any { return (*int)(nil) }},
	{"(**int)(nil)", func() any { return (**int)(nil) }},
	{"&(*int)(nil)", func() any { var p *int; return &p }},
	{"**int", func() any { i := 5; p := &i; return &p }},
	{"(*Stack)(nil)", func() any { return (*stackage.Stack)(nil) }},
	{"(*Condition)(nil)", func() any { return (*stackage.Condition)(nil) }},
	{"(*AStack)(nil)", func() any { return (*AStack)(nil) }},
	{"(**AStack)(nil)", func() any { return (**AStack)(nil) }},
	{"&(*AStack)(nil)", func() any { var p *AStack; return &p }},
	{"(*ACond)(nil)", func() any { return (*ACond)(nil) }},
	{"Stack{}", func() any { return stackage.Stack{} }},
	{"Condition{}", func() any { return stackage.Condition{} }},
	{"AStack{}", func() any { return AStack{} }},
	{"ACond{}", func() any { return ACond{} }},
	{"&Stack{}", func() any { return &stackage.Stack{} }},
	{"init-only Condition", func() any { var c stackage.Condition; c.Init(); return c }},
	{"func()", func() any { return func() {} }},
	{"func(int)string", func() any { return func(int) string { return "" } }},
	{"(func())(nil)", func() any { return (func())(nil) }},
	{"chan int", func() any { return make(chan int) }},
	{"(chan int)(nil)", func() any { return (chan int)(nil) }},
	{"map[string]int", func() any { return map[string]int{"a": 1} }},
	{"map[string]any{nil}", func() any { return map[string]any{"a": nil} }},
	{"(map[string]int)(nil)", func() any { return (map[string]int)(nil) }},
	{"NaN", func() any { return math.NaN() }},
	{"+Inf", func() any { return math.Inf(1) }},
	{"-Inf", func() any { return float32(math.Inf(-1)) }},
	{"privStruct", func() any { return privStruct{1, "x", []int{1}} }},
	{"&privStruct", func() any { return &privStruct{1, "x", nil} }},
	{"nestStruct", func() any { return nestStruct{} }},
	{"struct{}", func() any { return struct{}{} }},
	{"[]string{}", func() any { return []string{} }},
	{"[]string{a,b,c}", func() any { return []string{"a", "b", "c"} }},
	{"([]string)(nil)", func() any { return ([]string)(nil) }},
	{"[]any{}", func() any { return []any{} }},
	{"[]any{nil}", func() any { return []any{nil} }},
	{"[]*int{nil}", func() any { return []*int{nil} }},
	{"[2]int", func() any { return [2]int{1, 2} }},
	{"error", func() any { return errors.New("e") }},
	{"time.Time", func() any { return time.Unix(0, 0) }},
	{"UserOp{}", func() any { return UserOp{} }},
	{"(*ComparisonOperator)(nil)", func() any { return (*stackage.ComparisonOperator)(nil) }},
	{"(*UserOp)(nil)", func() any { return (*UserOp)(nil) }},
	{"ComparisonOperator(0)", func() any { return stackage.ComparisonOperator(0) }},
	{"ComparisonOperator(200)", func() any { return stackage.ComparisonOperator(200) }},
	{"uintptr", func() any { return uintptr(7) }},
	{"unsafe.Pointer(nil)", func() any { return unsafe.Pointer(nil) }},
	{"complex", func() any { return complex(1, -1) }},
	{"rune(0)", func() any { return rune(0) }},
	{"empty string", func() any { return "" }},
	{"LogLevel(0)", func() any { return stackage.LogLevel(0) }},
	{"-1", func() any { return -1 }},
	{"70000", func() any { return 70000 }},
	{"[]any label", func() any { return []any{"AND", []any{}} }},
	{"Stack holding Stack{}", func() any { return stackage.And().Push(stackage.Stack{}) }},
	{"&(any)(nil)", func() any { var x any; return &x }},
	{"&(error)(nil)", func() any { var e error; return &e }},
	{"&any(AStack)", func() any { var x any = AStack(stackage.And().Push("in")); return &x }},
	{"Cond holding func", func() any {
		var c stackage.Condition
		c.Init()
		c.SetExpression(func() {})
		return c
	}},
	{"Cond holding chan", func() any {
		var c stackage.Condition
		c.Init()
		c.SetExpression(make(chan int))
		return c
	}},
	{"reflect.Value{}", func() any { return reflect.Value{} }},
	{"reflect.ValueOf(5)", func() any { return reflect.ValueOf(5) }},
	{"pointer chain of 12 to a string", func() any { return DeepPtr("deep", 12) }},
	{"pointer chain of 70 to a Stack", func() any { return DeepPtr(stackage.Or().Push("deep-stack"), 70) }},
	{"pointer chain of 9 to a Condition", func() any { return DeepPtr(stackage.Cond("dk", stackage.Eq, "dv"), 9) }},
	{"pointer chain of 300 to an alias Stack", func() any { return DeepPtr(AStack(stackage.And().Push("deep-alias")), 300) }},
	{"nil pointer of depth 9", func() any { return DeepNil(9) }},
	{"nil pointer of depth 70", func() any { return DeepNil(70) }},
	{"SelfPtr(nil)", func() any { var p SelfPtr; return p }},
	{"SelfPtr->itself", func() any { var p SelfPtr; p = &p; return p }},
	{"[]any{&int, &&int}", func() any { i := 5; q := &i; return []any{&i, &q} }},
	{"struct{P *int}{nil}", func() any { return struct{ P *int }{nil} }},
	{"map[string]*int{nil}", func() any { return map[string]*int{"k": nil} }},
	{"(*EmbStack)(nil)", func() any { return (*EmbStack)(nil) }},
	{"(*EmbCond)(nil)", func() any { return (*EmbCond)(nil) }},
	{"EmbStack{}", func() any { return EmbStack{} }},
	{"map[Name]int", func() any { return map[Name]int{"a": 1} }},
	{"map[any]int", func() any { return map[any]int{"a": 1} }},
	{"Cond holding (*AStack)(nil)", func() any {
		var c stackage.Condition
		c.Init()
		c.SetKeyword("k").SetOperator(stackage.Eq).SetExpression((*AStack)(nil))
		return c
	}},
}

// Battery runs every observer (then the structure-rewriting maintenance calls) on s; returns the first panic.
func Battery(s stackage.Stack) (where, msg, site string) {
	type step struct {
		name string
		f    func()
	}
	steps := []step{
		{"IsInit", func() { s.IsInit() }},
		{"Kind", func() { s.Kind() }},
		{"Len", func() { s.Len() }},
		{"Index*", func() {
			for i := -1; i <= s.Len(); i++ {
				s.Index(i)
			}
		}},
		{"Front", func() { s.Front() }},
		{"Back", func() { s.Back() }},
		{"String", func() { _ = s.String() }},
		{"Unmarshal", func() { s.Unmarshal() }},
		{"Valid", func() { s.Valid() }},
		{"IsNesting", func() { s.IsNesting() }},
		{"IsEqual(copy)", func() {
			t := NewStack(s.Kind(), 0)
			sn, _ := stackage.VerifDump(s)
			t.Push(sn.Slots...)
			s.IsEqual(t)
			t.IsEqual(s)
		}},
		{"Traverse", func() {
			for i := 0; i < s.Len(); i++ {
				s.Traverse(i)
				s.Traverse(i, 0)
				s.Traverse(i, 0, 0)
			}
		}},
		{"Less", func() {
			for i := 0; i < s.Len(); i++ {
				s.Less(i, 0)
				s.Less(0, i)
			}
		}},
		{"Cap/Avail/IsFull", func() { s.Cap(); s.Avail(); s.IsFull() }},
		{"Defrag", func() { s.Defrag() }},
		{"Reveal", func() { s.Reveal() }},
		{"String(2)", func() { _ = s.String() }},
	}
	for _, st := range steps {
		if p, m, si := Guard(st.f); p {
			return st.name, m, si
		}
	}
	return "", "", ""
}

// ---------------------------------------------------------------- index part

type c08IdxCase struct {
	L        int
	Neg, Fwd bool
	Cap      bool
	Method   string
	I, J     int
}

func idxClass(i, L int) string {
	switch {
	case i == math.MinInt:
		return "MinInt"
	case i == math.MinInt+1:
		return "MinInt+1"
	case i == math.MaxInt:
		return "MaxInt"
	case i == math.MaxInt-1:
		return "MaxInt-1"
	case i < -L:
		return "<-Len"
	case i < 0:
		return "-Len..-1"
	case i < L:
		return "0..Len-1"
	case i == L:
		return "==Len"
	}
	return ">Len"
}

func idxValues(L int) []int {
	v := []int{math.MinInt, math.MinInt + 1}
	for i := -L - 2; i <= L+2; i++ {
		v = append(v, i)
	}
	return append(v, math.MaxInt-1, math.MaxInt)
}

var (
	c08Once  sync.Once
	c08Idx   []c08IdxCase
	c08AnyM  []c08AnyCase
	c08Elems int
)

type c08AnyCase struct {
	OnCond bool
	Spec   int // index into the method list
	Method string
	Param  int // which parameter receives the awkward value
	Val    int // index into AwkwardValues
}

// intMethods: Stack methods having an int (or ...int) parameter, found by reflection.
func intMethods() []string {
	t := reflect.TypeOf(stackage.Stack{})
	var out []string
	for i := 0; i < t.NumMethod(); i++ {
		m := t.Method(i)
		for j := 1; j < m.Type.NumIn(); j++ {
			pt := m.Type.In(j)
			if pt.Kind() == reflect.Int || (pt.Kind() == reflect.Slice && pt.Elem().Kind() == reflect.Int) {
				out = append(out, m.Name)
				break
			}
		}
	}
	return out
}

type anyMethod struct {
	OnCond bool
	Name   string
	Params []int // positions (0-based among the method's params) of `any`/`...any` parameters
}

func anyMethods() []anyMethod {
	var out []anyMethod
	for _, pair := range []struct {
		t      reflect.Type
		onCond bool
	}{{reflect.TypeOf(&stackage.Stack{}), false}, {reflect.TypeOf(&stackage.Condition{}), true}} {
		for i := 0; i < pair.t.NumMethod(); i++ {
			m := pair.t.Method(i)
			am := anyMethod{OnCond: pair.onCond, Name: m.Name}
			for j := 1; j < m.Type.NumIn(); j++ {
				pt := m.Type.In(j)
				if pt == tAny || (pt.Kind() == reflect.Slice && pt.Elem() == tAny && m.Type.IsVariadic() && j == m.Type.NumIn()-1) {
					am.Params = append(am.Params, j-1)
				}
			}
			if len(am.Params) > 0 {
				out = append(out, am)
			}
		}
	}
	return out
}

var c08MaxLen = 4

func c08Enum() {
	ims := intMethods()
	for L := 0; L <= c08MaxLen; L++ {
		for opt := 0; opt < 4; opt++ {
			for _, withCap := range []bool{false, true} {
				for _, m := range ims {
					two := m == "Swap" || m == "Less"
					for _, i := range idxValues(L) {
						if two {
							for _, j := range idxValues(L) {
								c08Idx = append(c08Idx, c08IdxCase{L, opt&1 != 0, opt&2 != 0, withCap, m, i, j})
							}
						} else {
							c08Idx = append(c08Idx, c08IdxCase{L, opt&1 != 0, opt&2 != 0, withCap, m, i, 0})
						}
					}
				}
			}
		}
	}
	for mi, am := range anyMethods() {
		for _, p := range am.Params {
			for vi := range AwkwardValues {
				c08AnyM = append(c08AnyM, c08AnyCase{am.OnCond, mi, am.Name, p, vi})
			}
		}
	}
	c08Elems = len(AwkwardValues) * 5
}

func c08BuildIdx(k c08IdxCase) (stackage.Stack, *ListModel, stackage.Stack) {
	capacity := 0
	if k.Cap {
		capacity = k.L + 1
	}
	cfg := ListCfg{Kind: "AND", Cap: capacity, Neg: k.Neg, Fwd: k.Fwd}
	s, m := cfg.Build()
	var nested stackage.Stack
	for i := 0; i < k.L; i++ {
		var v any = fmt.Sprintf("e%d", i)
		if i == 1 {
			nested = stackage.Or().Push("n0", "n1")
			v = nested
		}
		s.Push(v)
		m.Push(v)
	}
	return s, m, nested
}

func c08RunIdx(c *core.Ctx, k c08IdxCase) {
	s, m, _ := c08BuildIdx(k)
	L := k.L
	cls := idxClass(k.I, L)
	if k.Method == "Swap" || k.Method == "Less" {
		cls += "," + idxClass(k.J, L)
	}
	call := fmt.Sprintf("%s(%d)", k.Method, k.I)
	switch k.Method {
	case "Swap", "Less":
		call = fmt.Sprintf("%s(%d,%d)", k.Method, k.I, k.J)
	case "Replace", "Insert":
		call = fmt.Sprintf("%s(x,%d)", k.Method, k.I)
	}
	desc := map[string]any{"len": L, "neg": k.Neg, "fwd": k.Fwd, "cap": k.Cap, "call": call}
	if c.Idx%3 == 0 {
		// with the mutex enabled a refused call must also have released the lock again ("stays usable")
		s.SetMutex()
		desc["mutex"] = true
	}
	if c.Idx%2 == 1 {
		// the ordering mode concerns Pop alone; every index means what it meant
		s.SetFIFO(true)
		m.Fifo = true
		desc["fifo"] = true
	}
	before, _ := Take(s)
	content0 := append([]any{}, m.Items...)
	x := "NEW"
	var ok bool
	var val any
	pan, msg, site := Guard(func() {
		switch k.Method {
		case "Index":
			val, ok = s.Index(k.I)
		case "Remove":
			val, ok = s.Remove(k.I)
		case "Replace":
			ok = s.Replace(x, k.I)
		case "Insert":
			ok = s.Insert(x, k.I)
		case "Swap":
			s.Swap(k.I, k.J)
		case "Traverse":
			val, ok = s.Traverse(k.I)
			s.Traverse(k.I, k.I)
			s.Traverse(1, k.I)
		case "Less":
			s.Less(k.I, k.J)
		case "Defrag":
			s.Defrag(k.I)
		default:
			// a method with an int parameter this monitor has no specific oracle for: generic call
			mv := reflect.ValueOf(s).MethodByName(k.Method)
			args := make([]reflect.Value, 0, mv.Type().NumIn())
			for j := 0; j < mv.Type().NumIn(); j++ {
				pt := mv.Type().In(j)
				if pt.Kind() == reflect.Int {
					args = append(args, reflect.ValueOf(k.I))
				} else if mv.Type().IsVariadic() && j == mv.Type().NumIn()-1 {
					if pt.Elem().Kind() == reflect.Int {
						args = append(args, reflect.ValueOf(k.I))
					}
				} else {
					args = append(args, reflect.Zero(pt))
				}
			}
			mv.Call(args)
		}
	})
	c.Count("index-calls." + k.Method)
	if pan {
		c.Violatef("panic:"+k.Method+":"+cls, desc, "%s panicked (%s): %s", desc["call"], site, msg)
		return
	}
	after, _ := Take(s)
	if !after.S.Slot0Cfg {
		c.Violatef("corrupt:"+k.Method+":"+cls+":cfg-slot-lost", desc, "%s destroyed the configuration slot", desc["call"])
		return
	}
	if after.S.Ldr {
		c.Violatef("lock-left-held:"+k.Method+":"+cls, desc, "%s returned with the stack's lock still held (the next locking call would never return)", desc["call"])
		return
	}
	unchanged := Diff(before, after, DiffOpts{Raw: true}) == ""
	pos, addr := m.Resolve(k.I)
	posJ, addrJ := m.Resolve(k.J)
	plainI := k.I >= 0 && k.I < L
	plainJ := k.J >= 0 && k.J < L
	fail := func(kind, f string, a ...any) {
		c.Violatef(kind+":"+k.Method+":"+cls, desc, "%s: %s", desc["call"], fmt.Sprintf(f, a...))
	}
	switch k.Method {
	case "Index", "Traverse":
		if !unchanged {
			fail("corrupt", "a lookup changed the stack")
			return
		}
		if addr != ok {
			fail("wrong", "ok=%v but the index addresses an element: %v", ok, addr)
			return
		}
		if ok && !sameInstance(val, m.Items[pos]) {
			fail("wrong", "returned %s, expected %s", Show(val), Show(m.Items[pos]))
			return
		}
		if !ok && val != nil {
			fail("wrong", "failure but value %s", Show(val))
			return
		}
	case "Remove":
		if !addr {
			if ok || val != nil || !unchanged {
				fail("wrong", "index addresses nothing but ok=%v value=%s unchanged=%v", ok, Show(val), unchanged)
				return
			}
		} else {
			want := m.RemoveAt(pos)
			if !ok || !sameInstance(val, want) || !sameContent(contentOf(s), m.Items) {
				fail("wrong", "expected removal of position %d (%s): ok=%v value=%s content %s", pos, Show(want), ok, Show(val), showList(contentOf(s)))
				return
			}
		}
	case "Replace":
		switch {
		case plainI:
			m.Items[k.I] = x
			if !ok || !sameContent(contentOf(s), m.Items) {
				fail("wrong", "expected position %d replaced: ok=%v content %s", k.I, ok, showList(contentOf(s)))
				return
			}
		case addr:
			// option-mapped index: either refused (unchanged) or applied to the mapped element
			alt := append([]any{}, content0...)
			alt[pos] = x
			if !((!ok && unchanged) || (ok && sameContent(contentOf(s), alt))) {
				fail("wrong", "option-mapped index: ok=%v content %s", ok, showList(contentOf(s)))
				return
			}
		default:
			if ok || !unchanged {
				fail("wrong", "index addresses nothing but ok=%v unchanged=%v; content %s", ok, unchanged, showList(contentOf(s)))
				return
			}
		}
	case "Swap":
		switch {
		case plainI && plainJ:
			m.Swap(k.I, k.J)
			if !sameContent(contentOf(s), m.Items) {
				fail("wrong", "expected positions swapped, content %s", showList(contentOf(s)))
				return
			}
		case addr && addrJ:
			alt := append([]any{}, content0...)
			alt[pos], alt[posJ] = alt[posJ], alt[pos]
			if !(unchanged || sameContent(contentOf(s), alt)) {
				fail("wrong", "option-mapped indices: content %s", showList(contentOf(s)))
				return
			}
		default:
			if !unchanged {
				fail("corrupt", "an index addresses nothing but the stack changed: %s", Diff(before, after, DiffOpts{}))
				return
			}
		}
	case "Insert":
		if w := m.Insert(x, k.I); w != ok || !sameContent(contentOf(s), m.Items) {
			fail("wrong", "ok=%v (model %v), content %s, model %s", ok, w, showList(contentOf(s)), m)
			return
		}
	case "Less":
		if !unchanged {
			fail("corrupt", "Less changed the stack")
			return
		}
	}
	if a, d := ObserveList(s, m); a != "" && k.Method != "Defrag" {
		fail("wrong", "afterwards %s", d)
		return
	}
	if w, msg, site := Battery(s); w != "" {
		c.Violatef("unusable-after:"+k.Method+":"+cls, desc, "after %s, %s panicked (%s): %s", desc["call"], w, site, msg)
		return
	}
	if !(plainI && (plainJ || (k.Method != "Swap" && k.Method != "Less"))) {
		c.NontrivialStr(core.JSON(desc))
	}
	if c.WantSample() && c.Idx%2003 == 9 {
		c.Sample(desc)
	}
}

// ---------------------------------------------------------------- any-value part

func c08RunAny(c *core.Ctx, k c08AnyCase) {
	aw := AwkwardValues[k.Val]
	var recvT reflect.Type
	var s stackage.Stack
	var cd stackage.Condition
	var recv reflect.Value
	if k.OnCond {
		cd = stackage.Cond("kw", stackage.Eq, "expr")
		recv = reflect.ValueOf(&cd)
	} else {
		s = stackage.And().Push("a", stackage.Or().Push("n"), "c")
		recv = reflect.ValueOf(&s)
	}
	recvT = recv.Type()
	m, _ := recvT.MethodByName(k.Method)
	mt := m.Type
	var args []reflect.Value
	for j := 1; j < mt.NumIn(); j++ {
		pt := mt.In(j)
		variadic := mt.IsVariadic() && j == mt.NumIn()-1
		if j-1 == k.Param {
			v := aw.New()
			av := reflect.New(tAny).Elem()
			if v != nil {
				av.Set(reflect.ValueOf(v))
			}
			args = append(args, av)
			if variadic {
				// also a second copy behind an ordinary value
				ov := reflect.New(tAny).Elem()
				ov.Set(reflect.ValueOf("ordinary"))
				args = append(args, ov)
				av2 := reflect.New(tAny).Elem()
				if v2 := aw.New(); v2 != nil {
					av2.Set(reflect.ValueOf(v2))
				}
				args = append(args, av2)
			}
			continue
		}
		if variadic {
			continue
		}
		switch {
		case pt.Kind() == reflect.Int:
			args = append(args, reflect.ValueOf(1))
		case pt == tAny:
			ov := reflect.New(tAny).Elem()
			ov.Set(reflect.ValueOf("ordinary"))
			args = append(args, ov)
		case pt == tOperator:
			ov := reflect.New(tOperator).Elem()
			ov.Set(reflect.ValueOf(stackage.Eq))
			args = append(args, ov)
		default:
			args = append(args, reflect.Zero(pt))
		}
	}
	target := "Stack"
	if k.OnCond {
		target = "Condition"
	}
	desc := map[string]any{"receiver": target, "method": k.Method, "param": k.Param, "value": aw.Name}
	pan, msg, site := Guard(func() { recv.MethodByName(k.Method).Call(args) })
	c.Count("any-calls." + target)
	if pan {
		c.Violatef("panic:"+target+"."+k.Method+":"+aw.Name, desc, "%s.%s(%s) panicked (%s): %s", target, k.Method, aw.Name, site, msg)
		return
	}
	if k.OnCond {
		if w, msg, site := condBattery(cd); w != "" {
			c.Violatef("unusable-after:"+target+"."+k.Method+":"+aw.Name, desc, "after %s.%s(%s), %s panicked (%s): %s", target, k.Method, aw.Name, w, site, msg)
			return
		}
		if !cd.IsInit() && k.Method != "Free" {
			c.Violatef("corrupt:"+target+"."+k.Method+":"+aw.Name, desc, "condition no longer initialised")
			return
		}
	} else {
		sn, _ := stackage.VerifDump(s)
		if !sn.Slot0Cfg {
			c.Violatef("corrupt:"+target+"."+k.Method+":"+aw.Name, desc, "configuration slot lost")
			return
		}
		if w, msg, site := Battery(s); w != "" {
			c.Violatef("unusable-after:"+target+"."+k.Method+":"+aw.Name, desc, "after %s.%s(%s), %s panicked (%s): %s", target, k.Method, aw.Name, w, site, msg)
			return
		}
	}
	c.NontrivialStr(core.JSON(desc))
	if c.WantSample() && c.Idx%401 == 3 {
		c.Sample(desc)
	}
}

func condBattery(cd stackage.Condition) (where, msg, site string) {
	steps := []struct {
		name string
		f    func()
	}{
		{"Valid", func() { cd.Valid() }},
		{"String", func() { _ = cd.String() }},
		{"Unmarshal", func() { cd.Unmarshal() }},
		{"Len", func() { cd.Len() }},
		{"IsNesting", func() { cd.IsNesting() }},
		{"IsFIFO", func() { cd.IsFIFO() }},
		{"IsEqual(copy)", func() {
			var o stackage.Condition
			o.Init()
			o.SetKeyword(cd.Keyword()).SetOperator(cd.Operator()).SetExpression(cd.Expression())
			cd.IsEqual(o)
			o.IsEqual(cd)
		}},
		{"in-stack String", func() { _ = stackage.And().Push(cd, "z").String() }},
	}
	for _, st := range steps {
		if p, m, si := Guard(st.f); p {
			return st.name, m, si
		}
	}
	return "", "", ""
}

// element part: the awkward value as element / expression / comparand in four roles
func c08RunElem(c *core.Ctx, n int) {
	aw := AwkwardValues[n/5]
	role := []string{"pushed", "inserted+replaced", "condition-expression", "comparand-pair", "only-child-of-an-envelope"}[n%5]
	desc := map[string]any{"value": aw.Name, "role": role}
	var s stackage.Stack
	pan, msg, site := Guard(func() {
		switch role {
		case "pushed":
			// (a valid pointer to an alias first: whatever the library remembers about a type from a live value must
			// not be trusted for a later typed nil of that same type)
			va, vc := AStack(stackage.And().Push("live")), ACond(stackage.Cond("k", stackage.Eq, "v"))
			warm := stackage.Or().Push(&va, &vc, va, vc)
			_ = warm.String()
			warm.IsNesting()
			s = stackage.Or().Push("a", aw.New(), "b")
		case "only-child-of-an-envelope":
			// the value in the structural positions the tree-walking calls look at: only child of an envelope, slot 0 next
			// to a removable envelope, expression of a Condition in those positions, sole element of a root
			shapes := []func() stackage.Stack{
				func() stackage.Stack {
					return stackage.And().Push(stackage.Or().Push(aw.New()), "sibling", stackage.And().Push(stackage.List().Push(aw.New())))
				},
				func() stackage.Stack {
					return stackage.And().Push(aw.New(), stackage.Or().Push(stackage.And().Push("x", "y")))
				},
				func() stackage.Stack {
					return stackage.And().Push(stackage.Cond("k", stackage.Eq, aw.New()), stackage.And().Push(stackage.Or().Push("x", "y")))
				},
				func() stackage.Stack {
					return stackage.Or().Push(stackage.And().Push(stackage.Cond("k", stackage.Ne, aw.New())))
				},
				func() stackage.Stack { return stackage.Not().Push(aw.New()) },
				func() stackage.Stack { return stackage.List().SetMutex().Push(stackage.And().Push(aw.New())) },
				func() stackage.Stack {
					return stackage.And().Push("lead", stackage.Or().SetParen(true).Push(aw.New()), stackage.And().Push(aw.New(), nil, aw.New()))
				},
			}
			for i, mk := range shapes {
				s = mk()
				twin := mk()
				for _, f := range []func(){func() { s.Reveal() }, func() { s.Defrag() }, func() { _ = s.String() }, func() { s.Unmarshal() },
					func() { s.Traverse(0, 0, 0); s.Traverse(1, 0); s.Traverse(2, 0, 0) }, func() { s.IsEqual(twin); twin.IsEqual(s) },
					func() { s.Transfer(stackage.Basic()) }, func() { s.Valid() }, func() { s.IsNesting() }, func() { s.Reveal().Reveal() }} {
					if p, m, si := Guard(f); p {
						panic(fmt.Sprintf("tree shape %d: %s (%s)", i, m, si))
					}
				}
			}
		case "inserted+replaced":
			s = stackage.List().Push("a", "b", "c")
			s.Insert(aw.New(), 1)
			s.Replace(aw.New(), 0)
			// ... and over a slot that already holds a value of that very type
			s.Replace(aw.New(), 1)
			s.Replace(aw.New(), 0)
		case "condition-expression":
			var cd stackage.Condition
			cd.Init()
			cd.SetKeyword("k").SetOperator(stackage.Ge).SetExpression(aw.New())
			s = stackage.And().Push(cd, stackage.Cond(aw.New(), stackage.Eq, aw.New()))
			if w, m, si := condBattery(cd); w != "" {
				panic(fmt.Sprintf("condition %s: %s (%s)", w, m, si))
			}
		default:
			s = stackage.And().Push(aw.New(), "x")
			t := stackage.And().Push(aw.New(), "x")
			s.IsEqual(t)
			t.IsEqual(s)
			s.IsEqual(aw.New())
			stackage.Cond("k", stackage.Eq, aw.New()).IsEqual(stackage.Cond("k", stackage.Eq, aw.New()))
			stackage.Cond("k", stackage.Eq, "v").IsEqual(aw.New())
			// slices / arrays of pointers against slices / arrays of the values pointed to; maps with a NaN key
			one, two := 1, 2
			pone := &one
			sa, sb := "a", "b"
			for _, pair := range [][2]any{{[]*int{&one, &two}, []int{1, 2}}, {[2]*int{&one, &two}, [2]int{1, 2}}, {[]**int{&pone}, []*int{&one}},
				{[]*string{&sa, &sb}, []string{"a", "b"}}, {[]*int{&one, &two}, [2]string{"a", "b"}},
				{map[float64]string{math.NaN(): "n", 1: "o"}, map[float64]string{math.NaN(): "n", 1: "o"}}, {map[any]any{math.NaN(): 1}, map[any]any{math.NaN(): 1}}} {
				a, b := stackage.List().Push("x", pair[0]), stackage.List().Push("x", pair[1])
				a.IsEqual(b)
				b.IsEqual(a)
				stackage.Cond("k", stackage.Eq, pair[0]).IsEqual(stackage.Cond("k", stackage.Eq, pair[1]))
				stackage.Cond("k", stackage.Eq, pair[1]).IsEqual(stackage.Cond("k", stackage.Eq, pair[0]))
			}
			// maps of the same shape whose key types merely share a kind
			for _, pair := range [][2]any{{map[string]int{"a": 1}, map[Name]int{"a": 1}}, {map[any]int{"a": 1}, map[fmt.Stringer]int{Name("a"): 1}},
				{map[string]int{"a": 1}, map[string]int64{"a": 1}}, {map[int]string{1: "a"}, map[int64]string{1: "a"}}} {
				a, b := stackage.List().Push("x", pair[0]), stackage.List().Push("x", pair[1])
				a.IsEqual(b)
				b.IsEqual(a)
				stackage.Cond("k", stackage.Eq, pair[0]).IsEqual(stackage.Cond("k", stackage.Eq, pair[1]))
			}
			// same-shaped comparands of different struct types (embedded private against embedded public field)
			for _, pair := range [][2]any{{embPriv{privEmb{1}, 2}, embPub{PubEmb{1}, 2}}, {&embPriv{privEmb{1}, 2}, &embPub{PubEmb{1}, 2}}, {aw.New(), embPub{PubEmb{1}, 2}}} {
				a, b := stackage.And().Push(pair[0]), stackage.And().Push(pair[1])
				a.IsEqual(b)
				b.IsEqual(a)
			}
		}
	})
	c.Count("element-roles")
	if pan {
		c.Violatef("panic:"+role+":"+aw.Name, desc, "%s as %s panicked (%s): %s", aw.Name, role, site, msg)
		return
	}
	if w, msg, site := Battery(s); w != "" {
		c.Violatef("unusable-after:"+role+":"+aw.Name, desc, "with %s %s, %s panicked (%s): %s", aw.Name, role, w, site, msg)
		return
	}
	c.NontrivialStr(core.JSON(desc))
}

func c08Tier(tier string) (a, b, e int) {
	if tier == "thorough" {
		c08MaxLen = 7 // a process serves one tier only
	}
	c08Once.Do(c08Enum)
	return len(c08Idx), len(c08AnyM), c08Elems
}

func c08Run(c *core.Ctx, idx int) {
	a, b, _ := c08Tier(c.Tier)
	switch {
	case idx < a:
		c08RunIdx(c, c08Idx[idx])
	case idx < a+b:
		c08RunAny(c, c08AnyM[idx-a])
	default:
		c08RunElem(c, idx-a-b)
	}
}

func init() {
	core.Register(&core.Monitor{
		ID: "C08",
		Cases: func(tier string) int {
			a, b, e := c08Tier(tier)
			return a + b + e
		},
		Run: c08Run,
		Setup: func(c *core.Ctx) {
			c.Notes["int_methods"] = strings.Join(intMethods(), ",")
			var names []string
			for _, am := range anyMethods() {
				t := "Stack."
				if am.OnCond {
					t = "Condition."
				}
				names = append(names, t+am.Name)
			}
			c.Notes["any_methods"] = strings.Join(names, ",")
		},
		Rule: "index part (exhaustive): every Stack method with an int parameter (found by reflection) x index values {MinInt, MinInt+1, -Len-2..Len+2, MaxInt-1, MaxInt} (pairs for Swap/Less) x stacks of length 0..4 (quick) / 0..7 (thorough) (element 1 a nested stack) x 4 negative/forward index option sets x {capacity, none}; " +
			"value part (exhaustive): every Stack/Condition method with an `any`/`...any` parameter (found by reflection) x a 57-entry catalogue of awkward values (untyped nil, typed nil pointers of depth 1-2 incl. to Stack/alias/Condition, zero Stack/Condition/aliases, funcs, chans, maps, NaN/Inf, private-field structs, slices/arrays, unsafe pointers ...), plus each value in five roles (pushed, inserted+replaced, condition expression/keyword, comparand pair, and seven structural positions of small trees - only child of an envelope, slot 0 next to a removable envelope, expression of a Condition in those positions, sole element of a root - under Reveal/Defrag/String/Unmarshal/Traverse/IsEqual/Transfer/Valid/IsNesting). " +
			"Oracle: no panic; list-model verdict for Index/Remove/Replace/Swap/Insert/Traverse (failure and a byte-identical recursive snapshot when the index addresses nothing; option-mapped targets otherwise); afterwards the configuration slot is intact and a 17-step observer/maintenance battery (Index*, String, Unmarshal, IsEqual(copy), Traverse, Less, Defrag, Reveal ...) returns normally. " +
			"non-trivial = index case with at least one index outside 0..Len-1, or any value/role case that completed all checks; distinct = hash of the case tuple.",
		Assumptions: []string{
			"for Replace/Swap with the negative/forward option on and an index only the option makes valid, both 'refused and unchanged' and 'applied to the option-mapped element' are accepted (the statement does not say whether these two methods honour the options)",
			"Defrag(max) with hostile max is only required not to panic and to leave a usable stack",
		},
		Floors: func(string) map[string]int64 {
			return map[string]int64{"index-calls.Swap": 5000, "index-calls.Replace": 300, "index-calls.Index": 300, "any-calls.Stack": 500, "any-calls.Condition": 300, "element-roles": 200}
		},
		Exhaustive: func(string) bool { return true },
	})
}
