package mon

import (
	"bytes"
	"fmt"
	"runtime"
	"strconv"
	"sync"
)

// WaitGraph decides "deadlock" logically for free-running goroutines: from the library's lock-point events it keeps who
// holds which stack lock and who waits for which, and when a goroutine is about to wait for a lock at the end of a chain
// of holders and waiters that leads back to itself, no schedule can ever release it. That goroutine is made to panic out of
// the call (its deferred unlocks then free the others), and the cycle is reported. No clock is involved.
//
// Soundness: each goroutine's events are recorded in its program order under one mutex. A goroutine that is recorded as
// waiting has already reported every release that preceded its wait, so a holder entry on a path through a waiting
// goroutine is current; a lock acquired but not yet reported as held can only hide a cycle, never fabricate one.
type WaitGraph struct {
	mu      sync.Mutex
	holder  map[uintptr]int64
	waiting map[int64]uintptr
	Found   string
}

func NewWaitGraph() *WaitGraph {
	return &WaitGraph{holder: map[uintptr]int64{}, waiting: map[int64]uintptr{}}
}

func goid() int64 {
	var buf [64]byte
	b := buf[:runtime.Stack(buf[:], false)]
	b = bytes.TrimPrefix(b, []byte("goroutine "))
	if i := bytes.IndexByte(b, ' '); i > 0 {
		n, _ := strconv.ParseInt(string(b[:i]), 10, 64)
		return n
	}
	return -1
}

// Hook is the function to install with VerifSetHook.
func (g *WaitGraph) Hook(point string, id uintptr) {
	me := goid()
	g.mu.Lock()
	switch point {
	case "lock.want":
		cur, chain := id, fmt.Sprintf("goroutine %d wants lock #%x", me, id)
		for steps := 0; steps < 64; steps++ {
			h, held := g.holder[cur]
			if !held {
				break
			}
			chain += fmt.Sprintf(", held by goroutine %d", h)
			if h == me {
				if g.Found == "" {
					g.Found = chain + " - which is the one asking: no schedule ever releases it"
				}
				msg := "deadlock: " + chain
				g.mu.Unlock()
				panic(msg)
			}
			w, waits := g.waiting[h]
			if !waits {
				break
			}
			chain += fmt.Sprintf(" which wants lock #%x", w)
			cur = w
		}
		g.waiting[me] = id
	case "lock.held":
		delete(g.waiting, me)
		g.holder[id] = me
	case "lock.released":
		if g.holder[id] == me {
			delete(g.holder, id)
		}
	}
	g.mu.Unlock()
}
