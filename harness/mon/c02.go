package mon

import (
	"fmt"
	"strings"
	"time"

	stackage "github.com/JesseCoretta/go-stackage"

	"verifharness/core"
)

// C02 — String() renders the expression tree by one fixed compositional grammar.

// Name is a leaf type with its own String method.
type Name string

func (n Name) String() string { return "<" + string(n) + ">" }

var c02Texts = []string{
	"alpha", "b", "cn", "objectClass", "x1",
	"é", "日本語", "𝛼β", "é", "naïve café", "Ünïcödé", "→", "ß",
	"a  b", "x\t\ty", "p \t q", " lead", "trail ", "  both  ",
	"", "",
	"a,b", "(x)", "k=v", "AND", "not",
	"10\u00a0000\u00a0km", "東京\u3000都", "line1\nline2", "a\u2003b", "x\u00a0 y",
	// texts that begin and end with the very strings used as encapsulation pairs
	`"x"`, `""`, `"a" b "c"`, "<v>", "'q'", "«z»", "[i]", "`t`", "{m}", "(p)",
	// the replacement character itself is ordinary (validly encoded) text
	"x\uFFFDy", "\uFFFD", "ok \uFFFD\uFFFD end",
	// texts that end (or begin) with the very characters used as LIST delimiters
	"tail,", "tail;", "tail、", "local/", "example.com.", ";head", "a|", "100%", "%d items", "%s",
}

func c02Leaf(r *core.Rng) *LeafDesc {
	switch r.Intn(16) {
	case 0:
		return &LeafDesc{Tag: "int", I: int64(r.Intn(2000)) - 1000}
	case 1:
		return &LeafDesc{Tag: []string{"int8", "int16", "int32", "int64"}[r.Intn(4)], I: int64(r.Intn(250)) - 125}
	case 2:
		return &LeafDesc{Tag: []string{"uint", "uint8", "uint16", "uint32", "uint64"}[r.Intn(5)], I: int64(r.Intn(255))}
	case 3:
		return &LeafDesc{Tag: "float64", F: float64(r.Intn(4000)-2000) / 16}
	case 4:
		return &LeafDesc{Tag: "float32", F: float64(r.Intn(400)) / 4}
	case 5:
		return &LeafDesc{Tag: "bool", B: r.Bool()}
	case 6:
		if r.Chance(1, 3) {
			// unsigned values beyond the signed range (the description stores the bit pattern)
			return &LeafDesc{Tag: []string{"uint64", "uint"}[r.Intn(2)], I: []int64{-1, -9223372036854775808, -9223372036854775807, -2, -int64(r.U64() >> 2)}[r.Intn(5)]}
		}
		return &LeafDesc{Tag: "int64", I: int64(r.U64() >> 1)}
	case 7:
		return &LeafDesc{Tag: "name", S: c02Texts[r.Intn(13)]}
	case 8:
		return &LeafDesc{Tag: "duration", I: int64(r.Intn(100000)+1) * 1000000}
	case 9:
		// values of defined types that have no String method of their own
		switch r.Intn(4) {
		case 0:
			return &LeafDesc{Tag: "named-int", I: int64(r.Intn(2000)) - 1000}
		case 1:
			return &LeafDesc{Tag: "named-bool", B: r.Bool()}
		case 2:
			return &LeafDesc{Tag: "named-float", F: float64(r.Intn(4000)-2000) / 16}
		}
		return &LeafDesc{Tag: "named-str", S: c02Texts[r.Intn(len(c02Texts))]}
	}
	return &LeafDesc{Tag: "str", S: c02Texts[r.Intn(len(c02Texts))]}
}

func init() {
	// extra leaf tags used by C02
	extraLeaf["name"] = func(l *LeafDesc) any { return Name(l.S) }
	extraLeaf["duration"] = func(l *LeafDesc) any { return time.Duration(l.I) }
}

func c02Op(r *core.Rng) *OpDesc {
	switch r.Intn(12) {
	case 0:
		return nil // no operator at all
	case 1:
		return &OpDesc{Code: 9} // out-of-range built-in operator
	case 2, 3:
		return &OpDesc{User: true, Txt: []string{"~=", ":=", "≈", "EQ", "=", "<="}[r.Intn(6)], Ctx: "custom"}
	}
	return &OpDesc{Code: 1 + r.Intn(6)}
}

var c02Gen = TreeGen{MaxDepth: 4, MaxWidth: 4, MinWidth: 0, Conds: 22, CondStackExpr: 30, CondCondExpr: 8,
	Aliases: 10, Present: true, StackProb: 40, Leaf: c02Leaf, Ops: c02Op}

func c02Tier(tier string) (exh, random int) {
	if tier == "thorough" {
		return 4 * 5 * 16 * 16 * 2, 10000000
	}
	return 4 * 5 * 16 * 16 * 2, 300000
}

func c02Fixed(idx int, r *core.Rng) *TNode {
	alt := idx%2 == 1
	idx /= 2
	inf := idx % 16
	idx /= 16
	of := idx % 16
	idx /= 16
	ik := Kinds[idx%5]
	idx /= 5
	ok := []string{"AND", "OR", "NOT", "LIST"}[idx%4]
	setFlags := func(n *TNode, f int) {
		n.Paren, n.Fold, n.NoPad, n.LeadOnce = f&1 != 0, f&2 != 0, f&4 != 0, f&8 != 0
	}
	inner := &TNode{T: "stack", Kind: ik, Kids: []*TNode{
		{T: "leaf", Leaf: &LeafDesc{Tag: "str", S: "b"}}, {T: "leaf", Leaf: &LeafDesc{Tag: "int", I: 7}}}}
	setFlags(inner, inf)
	outer := &TNode{T: "stack", Kind: ok, Kids: []*TNode{
		{T: "leaf", Leaf: &LeafDesc{Tag: "str", S: "a"}},
		inner,
		{T: "cond", Kw: "k", Op: &OpDesc{Code: 1}, Expr: &TNode{T: "leaf", Leaf: &LeafDesc{Tag: "str", S: "v w"}}},
		{T: "leaf", Leaf: &LeafDesc{Tag: "str", S: "d é"}},
	}}
	setFlags(outer, of)
	if alt {
		if ok == "LIST" {
			outer.Delim = ","
		} else {
			outer.Sym = "&"
		}
		if ik == "LIST" {
			inner.Delim = []string{";", " | "}[r.Intn(2)]
		} else if ik != "BASIC" {
			inner.Sym = []string{"|", "∧"}[r.Intn(2)]
		}
		if r.Bool() {
			outer.Enc = [][]string{{`"`}}
		}
	}
	return outer
}

func c02Run(c *core.Ctx, idx int) {
	exh, _ := c02Tier(c.Tier)
	r := c.Rng
	var tree *TNode
	if idx < exh {
		tree = c02Fixed(idx, r)
		c.Count("trees.fixed-two-level")
	} else {
		tree = c02Gen.Gen(r)
		if tree.Kind == "BASIC" {
			tree.Kind = "AND"
		}
		if r.Chance(1, 6) {
			// no-nesting switched on after the elements are in: what is already held renders as before
			tree.Walk(func(n *TNode) {
				if n.T == "stack" && r.Chance(1, 2) {
					n.NoNest = true
				}
			})
			c.Count("trees.with-late-no-nesting")
		}
		c.Count("trees.random")
	}
	if SpiceErrs(uint64(c.Seed), idx, tree) {
		c.Count("trees.with-left-over-errors")
	}
	if sp := core.NewRng(core.Mix(uint64(c.Seed)+0x5b1ce, uint64(idx))); sp.Chance(1, 6) {
		// (own PRNG stream, so that the rest of the case is what it was without this step)
		if did := Spice(sp, tree, sp.Chance(1, 2), sp.Chance(1, 2), sp.Chance(1, 2)); did != "" {
			c.Count("trees.spiced." + strings.TrimSpace(strings.ReplaceAll(strings.TrimSpace(did), " ", "+")))
		}
	}
	root := tree.BuildStack()
	want, inDomain := RefRenderStack(root)
	var got, got2 string
	if p, msg, site := Guard(func() { got = root.String(); got2 = fmt.Sprintf("%s", root) }); p {
		if !inDomain {
			c.Count("out-of-domain.panicked")
			return
		}
		c.Violatef("panic:"+site, tree, "String() panicked: %s on %s", msg, tree.Brief())
		return
	}
	if !inDomain {
		c.Count("out-of-domain")
		return
	}
	c.Count("rendered")
	if got != want {
		c.Violatef(c02Classify(tree, got, want), tree, "String()=%q, canonical rendering %q for %s", got, want, tree.Brief())
		return
	}
	if got2 != got {
		c.Violatef("fmt-differs", tree, "fmt %%s gives %q but String() %q", got2, got)
		return
	}
	if idx%5 == 2 {
		// the other roads to the same text: %v, Sprint, a pointer to the handle, a copy of the handle
		cp := root
		var routes [4]string
		if p, msg, site := Guard(func() {
			routes[0] = fmt.Sprintf("%v", root)
			routes[1] = fmt.Sprint(root)
			routes[2] = (&cp).String()
			routes[3] = fmt.Sprintf("%s|%s", root, root)
		}); p {
			c.Violatef("panic:"+site, tree, "rendering through fmt panicked: %s on %s", msg, tree.Brief())
			return
		}
		for i, g := range routes[:3] {
			if g != want {
				c.Violatef("fmt-differs", tree, "route %d (%%v / Sprint / pointer to the handle) gives %q, canonical rendering %q", i, g, want)
				return
			}
		}
		if routes[3] != want+"|"+want {
			c.Violatef("fmt-differs", tree, "rendering twice in one format call gives %q, canonical rendering %q twice", routes[3], want)
			return
		}
		c.Count("rendered.through-other-routes")
	}
	if idx%7 == 3 {
		// an unrelated tree is built, configured and rendered in between: this one reads as before
		other := c02Gen.Gen(core.NewRng(core.Mix(uint64(c.Seed)+0x07e4, uint64(idx))))
		if idx%2 == 1 {
			// both go through a reset of their encapsulation and take new pairs, this one first
			root.SetEncap(`|`)
			root.SetEncap()
			root.SetEncap(`"`)
			want, inDomain = RefRenderStack(root)
			if g := root.String(); !inDomain || g != want {
				if inDomain {
					c.Violatef("encap-after-reset", tree, "after SetEncap(|), SetEncap(), SetEncap(\"): String()=%q, canonical rendering %q", g, want)
				}
				return
			}
		}
		ow, oin := RefRenderStack(other.BuildStack())
		var og, again string
		if p, _, _ := Guard(func() {
			ob := other.BuildStack()
			og = ob.String()
			ob.SetEncap()
			ob.SetEncap([]string{"<", ">"})
			ob.SetEncap("'")
			_ = ob.String()
			oc := stackage.Cond("ok", stackage.Eq, "ov").SetEncap()
			oc.SetEncap([]string{"{", "}"})
			again = root.String()
		}); !p {
			if oin && og != ow {
				c.Violatef("other-tree:"+c02Classify(other, og, ow), other, "String()=%q, canonical rendering %q for %s", og, ow, other.Brief())
				return
			}
			if again != want {
				c.Violatef("changed-by-unrelated-tree", tree, "String() gave %q, and %q after an unrelated tree (%s) was built and rendered", want, again, other.Brief())
				return
			}
			c.Count("rendered.again-after-unrelated-tree")
		}
	}
	// second phase: change options on the LIVE instances (current and deprecated spellings, explicit and toggling
	// forms) and render again - nothing computed for the first rendering may be reused stale
	if idx%3 == 0 {
		var live []stackage.Stack
		var walk func(s stackage.Stack, d int)
		walk = func(s stackage.Stack, d int) {
			live = append(live, s)
			for i := 0; i < s.Len() && d < 5; i++ {
				v, _ := s.Index(i)
				if ns, ok := knownStack(v); ok && ns.IsInit() {
					walk(ns, d+1)
				}
			}
		}
		walk(root, 0)
		var changes []string
		for n := r.Range(1, 3); n > 0; n-- {
			s := live[r.Intn(len(live))]
			switch r.Intn(9) {
			case 0:
				s.SetFold()
				changes = append(changes, "SetFold()")
			case 1:
				s.Fold()
				changes = append(changes, "Fold()")
			case 2:
				s.SetFold(r.Bool())
				changes = append(changes, "SetFold(b)")
			case 3:
				s.SetParen()
				changes = append(changes, "SetParen()")
			case 4:
				s.SetNoPadding()
				changes = append(changes, "SetNoPadding()")
			case 5:
				s.LeadOnce()
				changes = append(changes, "LeadOnce()")
			case 6:
				s.SetSymbol([]string{"&", "und", ""}[r.Intn(3)])
				changes = append(changes, "SetSymbol(x)")
			case 7:
				s.SetDelimiter([]string{",", " ", ""}[r.Intn(3)])
				changes = append(changes, "SetDelimiter(x)")
			default:
				s.SetEncap()
				changes = append(changes, "SetEncap()")
			}
		}
		want2, ok2 := RefRenderStack(root)
		got3 := root.String()
		if ok2 && got3 != want2 {
			c.Violatef("stale-after-option-change", tree, "after %v on live nodes String()=%q, canonical rendering %q (first rendering was %q) for %s", changes, got3, want2, got, tree.Brief())
			return
		}
		c.Count("re-rendered-after-option-change")
	}
	// non-trivial: depth >= 2 and (non-ASCII or blank-run leaf, or >= 2 distinct option bits somewhere)
	nonASCII, opts := false, map[string]bool{}
	tree.Walk(func(n *TNode) {
		if n.T == "leaf" && (n.Leaf.Tag == "str" || n.Leaf.Tag == "name") {
			for _, ch := range n.Leaf.S {
				if ch > 127 || ch == '\t' {
					nonASCII = true
				}
			}
		}
		if n.Paren {
			opts["paren"] = true
		}
		if n.Fold {
			opts["fold"] = true
		}
		if n.NoPad {
			opts["nopad"] = true
		}
		if n.LeadOnce {
			opts["lonce"] = true
		}
		if n.Sym != "" {
			opts["sym"] = true
		}
		if n.Delim != "" {
			opts["delim"] = true
		}
		if len(n.Enc) > 0 {
			opts["enc"] = true
		}
	})
	for k := range opts {
		c.Count("option-seen." + k)
	}
	if nonASCII {
		c.Count("trees.with-non-ascii-or-tab")
	}
	if tree.Depth() >= 2 && (nonASCII || len(opts) >= 2) {
		c.NontrivialStr(core.JSON(tree))
	}
	if c.WantSample() && idx%1201 == 7 {
		c.Sample(map[string]any{"tree": tree.Brief(), "String": got})
	}
	if c.Verbose {
		fmt.Printf("tree: %s\nString: %q\n", tree.Brief(), got)
	}
}

// c02Classify names the grammar clause a mismatch most likely belongs to (used as the violation key).
func c02Classify(tree *TNode, got, want string) string {
	hasFoldNot, emptyNot, listNoDelim, emptyLonce := false, false, false, false
	tree.Walk(func(n *TNode) {
		if n.T == "stack" && n.Kind == "NOT" && n.Fold {
			hasFoldNot = true
		}
		if n.T == "stack" && n.Kind == "NOT" && len(n.Kids) == 0 {
			emptyNot = true
		}
		if n.T == "stack" && n.Kind == "LIST" && n.Delim == "" {
			listNoDelim = true
		}
		if n.T == "stack" && n.LeadOnce {
			emptyLonce = true
		}
	})
	for _, ch := range got {
		if ch == 0xC2 || ch == 0xC3 || ch == 0xFFFD {
			for _, w := range want {
				if w > 127 {
					return "mismatch:utf8"
				}
			}
		}
	}
	switch {
	case hasFoldNot && len(got) == len(want):
		return "mismatch:not-fold"
	case emptyNot:
		return "mismatch:empty-not"
	case listNoDelim && len(got) < len(want):
		return "mismatch:list-join"
	case emptyLonce:
		return "mismatch:lead-once"
	}
	return "mismatch"
}

func init() {
	core.Register(&core.Monitor{
		ID: "C02",
		Cases: func(tier string) int {
			e, r := c02Tier(tier)
			return e + r
		},
		Run: c02Run,
		Rule: "exhaustive: a fixed two-level tree (leaf, nested stack, Condition, non-ASCII leaf) for every outer kind {AND,OR,NOT,LIST} x inner kind {AND,OR,NOT,LIST,BASIC} x all 16 outer flag sets x all 16 inner flag sets x {words, symbol/delimiter(+encapsulation)}; " +
			"random: trees of depth <= 4, width 0..4, every node drawing paren/fold/no-padding/lead-once, symbol, delimiter and 0..2 encapsulation pairs independently; leaves = ASCII words, multi-byte UTF-8 (accents, CJK, astral, combining marks), embedded blank/tab runs, leading/trailing blanks, the empty string, " +
			"ints/uints/floats of every width, bools, stringers; Conditions valid and invalid (no operator, out-of-range operator) with primitive/Stack/Condition expressions. String() and fmt %s are compared with an independent renderer written from the statement; every third tree then has 1..3 options changed on live nodes (toggling, explicit and deprecated setter spellings, symbol, delimiter, encapsulation) and is rendered and compared again. " +
			"non-trivial = depth >= 2 and (a non-ASCII or tab-containing leaf or >= 2 different options set somewhere); distinct = hash of the tree description.",
		Assumptions: []string{
			"outside the deciding domain (statement silent, counted as out-of-domain, only required not to be judged): nil/func/chan elements, zero-valued Condition elements, zero-valued stringers, leaf text that begins or ends with white space other than blank/tab, a parenthetical lead-once non-LIST stack without any rendered operand, installed presentation/validity policies",
			"no-padding is read as: no blank added around leaves, symbols, list joins and inside parentheses; word operators keep their surrounding blanks",
			"number text = shortest decimal representation (strconv 'g' for floats)",
		},
		Floors: func(string) map[string]int64 {
			return map[string]int64{"rendered": 20000, "rendered.through-other-routes": 10000, "rendered.again-after-unrelated-tree": 8000, "trees.with-left-over-errors": 3000, "cases.with-bystander-goroutines": 3000, "trees.with-non-ascii-or-tab": 2000, "option-seen.fold": 1000, "option-seen.lonce": 1000, "option-seen.enc": 1000, "option-seen.sym": 1000, "option-seen.delim": 500, "re-rendered-after-option-change": 5000}
		},
	})
}
