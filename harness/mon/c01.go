package mon

import (
	"fmt"
	stackage "github.com/JesseCoretta/go-stackage"
	"math"
	"sort"
	"strings"

	"verifharness/core"
)

// C01 — ordered-list semantics under any operation history.

const c01Alphabet = 14

func c01Symbol(sym int, next func() any) LOp {
	switch sym {
	case 0:
		return LOp{K: "Push", Vals: []any{next()}}
	case 1:
		return LOp{K: "Push", Vals: []any{next(), next()}}
	case 2:
		return LOp{K: "Push", Vals: []any{nil}}
	case 3:
		return LOp{K: "Pop"}
	case 4:
		return LOp{K: "Insert", Vals: []any{next()}, I: 0}
	case 5:
		return LOp{K: "Insert", Vals: []any{next()}, I: IdxMid}
	case 6:
		return LOp{K: "Insert", Vals: []any{next()}, I: IdxEnd}
	case 7:
		return LOp{K: "Remove", I: 0}
	case 8:
		return LOp{K: "Remove", I: IdxLast}
	case 9:
		return LOp{K: "Replace", Vals: []any{next()}, I: 0}
	case 10:
		return LOp{K: "Replace", Vals: []any{next()}, I: IdxLast}
	case 11:
		return LOp{K: "Swap", I: 0, J: IdxLast}
	case 12:
		return LOp{K: "Reverse"}
	}
	return LOp{K: "Reset"}
}

// exhaustive history counts per maximal length
func c01ExhCount(maxLen int) int {
	n, p := 0, 1
	for l := 0; l <= maxLen; l++ {
		n += p
		p *= c01Alphabet
	}
	return n
}

func c01Decode(h, maxLen int) []int {
	p := 1
	for l := 0; l <= maxLen; l++ {
		if h < p {
			out := make([]int, l)
			for i := l - 1; i >= 0; i-- {
				out[i] = h % c01Alphabet
				h /= c01Alphabet
			}
			return out
		}
		h -= p
		p *= c01Alphabet
	}
	return nil
}

func c01Tier(tier string) (maxLen, exh, random int) {
	if tier == "thorough" {
		return 4, c01ExhCount(4) * 4, 10000000
	}
	return 3, c01ExhCount(3) * 4, 200000
}

func randListCfg(r *core.Rng) ListCfg {
	caps := []int{0, 0, 1, 2, 3, 5}
	return ListCfg{Kind: Kinds[r.Intn(len(Kinds))], Cap: caps[r.Intn(len(caps))], Fifo: r.Chance(1, 3), Neg: r.Bool(), Fwd: r.Bool()}
}

// uniqueVals returns a generator of unique element values (alternating types).
func uniqueVals() func() any {
	n := 0
	return func() any {
		n++
		if n%3 == 0 {
			return 1000 + n
		}
		return fmt.Sprintf("v%d", n)
	}
}

type replaceWithWhatIsThere struct{}

func randListOp(r *core.Rng, L int, fifoOn bool, next func() any) LOp {
	for {
		w := r.Intn(100)
		switch {
		case w < 25:
			if L > 6 && r.Chance(2, 3) {
				continue
			}
			n := r.Range(1, 4)
			vals := make([]any, n)
			for i := range vals {
				if r.Chance(1, 10) {
					vals[i] = nil
				} else {
					vals[i] = next()
				}
			}
			return LOp{K: "Push", Vals: vals}
		case w < 37:
			return LOp{K: "Pop"}
		case w < 49:
			var v any = next()
			if r.Chance(1, 20) {
				v = nil
			}
			at := r.Range(-1, L+1)
			if r.Chance(1, 12) {
				at = []int{math.MaxInt, math.MaxInt - 1, math.MinInt, math.MinInt + 1, 1 << 40, -(1 << 40)}[r.Intn(6)] // clamped to the ends
			}
			return LOp{K: "Insert", Vals: []any{v}, I: at}
		case w < 61:
			return LOp{K: "Remove", I: r.Range(-L-1, L+1)}
		case w < 71:
			if L == 0 {
				continue
			}
			var v any = next()
			if r.Chance(1, 20) {
				v = nil
			}
			if r.Chance(1, 8) {
				v = replaceWithWhatIsThere{} // resolved to the value already at that position when the op is applied
			}
			return LOp{K: "Replace", Vals: []any{v}, I: r.Intn(L)}
		case w < 79:
			if L == 0 {
				continue
			}
			return LOp{K: "Swap", I: r.Intn(L), J: r.Intn(L)}
		case w < 88:
			return LOp{K: "Reverse"}
		case w < 92:
			return LOp{K: "Reset"}
		case w < 95:
			if fifoOn {
				continue
			}
			return LOp{K: "SetFIFO"}
		default:
			return LOp{K: "Pop"}
		}
	}
}

// c01Sort: the Stack as a sort.Interface. With a user LessFunc over distinct ints, sort.Sort / sort.Stable must leave
// exactly the sorted permutation (Len, Swap and Less act on the positions they are given); without one, the default
// ordering must at least leave a permutation of what was there, and sorting twice changes nothing more.
func c01Sort(c *core.Ctx) {
	r := c.Rng
	cfg := randListCfg(r)
	cfg.Cap = 0
	s, _ := cfg.Build()
	n := r.Range(0, 40)
	if r.Chance(1, 10) {
		n = r.Range(100, 400)
	}
	perm := make([]int, n)
	for i := range perm {
		perm[i] = i * 3
	}
	for i := n - 1; i > 0; i-- {
		j := r.Intn(i + 1)
		perm[i], perm[j] = perm[j], perm[i]
	}
	for _, v := range perm {
		s.Push(v)
	}
	desc := map[string]any{"cfg": cfg.String(), "len": n}
	custom := r.Chance(2, 3)
	desc["custom_less"] = custom
	if custom {
		desc2 := r.Bool()
		s.SetLessFunc(func(i, j int) bool {
			a, _ := s.Index(i)
			b, _ := s.Index(j)
			if desc2 {
				return a.(int) > b.(int)
			}
			return a.(int) < b.(int)
		})
		desc["descending"] = desc2
	}
	stable := r.Bool()
	if p, msg, site := Guard(func() {
		if stable {
			sort.Stable(s)
		} else {
			sort.Sort(s)
		}
	}); p {
		c.Violatef("Sort:panic:"+site, desc, "sorting panicked: %s", msg)
		return
	}
	c.Count("sorted-stacks")
	got := contentOf(s)
	if len(got) != n || s.Len() != n {
		c.Violatef("Sort:Len", desc, "sorting changed the length from %d to %d", n, s.Len())
		return
	}
	seen := map[int]bool{}
	for _, v := range got {
		iv, ok := v.(int)
		if !ok || seen[iv] || iv%3 != 0 || iv < 0 || iv >= 3*n {
			c.Violatef("Sort:content", desc, "after sorting the stack holds %s (not a permutation of what was pushed)", showList(got))
			return
		}
		seen[iv] = true
	}
	if custom {
		for i := 1; i < n; i++ {
			a, b := got[i-1].(int), got[i].(int)
			if (desc["descending"].(bool) && a < b) || (!desc["descending"].(bool) && a > b) {
				c.Violatef("Sort:order", desc, "after sorting with the user's LessFunc positions %d,%d hold %d,%d: %s", i-1, i, a, b, showList(got))
				return
			}
		}
	}
	first := showList(got)
	sort.Stable(s)
	if again := showList(contentOf(s)); again != first {
		c.Violatef("Sort:idempotence", desc, "sorting a sorted stack changed it: %s -> %s", first, again)
		return
	}
	c.NontrivialStr("sort|" + core.JSON(desc))
}

// c01BigCap: "a Stack of any kind" includes one whose capacity is a large number. A capacity of 66 000 (or 140 000, or a
// million) is honoured exactly like one of 5: that many values are held, in order, and not one more.
func c01BigCap(c *core.Ctx, idx int) {
	r := c.Rng
	cfg := randListCfg(r)
	switch r.Intn(4) {
	case 0:
		cfg.Cap = r.Range(65530, 65545)
	case 1:
		cfg.Cap = r.Range(65546, 70000)
	case 2:
		cfg.Cap = r.Range(131070, 140000)
	default:
		cfg.Cap = r.Range(32760, 33000)
		if c.Tier == "thorough" {
			cfg.Cap = r.Range(1<<20-5, 1<<20+4000)
		}
	}
	target := cfg.Cap
	if r.Chance(1, 3) {
		cfg.Cap = 0 // the same number of values in a stack without any capacity
	}
	s, m := cfg.Build()
	var log []string
	fail := func(op LOp, a, d string) {
		c.Violate("bigcap:"+op.K+":"+a, fmt.Sprintf("after %s on [%s]: %s", op, cfg, d), map[string]any{"cfg": cfg, "ops": log})
	}
	n := 0
	next := func() any { n++; return n }
	spot := func(op LOp) bool {
		L := m.Len()
		if got := s.Len(); got != L {
			fail(op, "Len", fmt.Sprintf("Len()=%d, the ordered list bounded by %d holds %d", got, cfg.Cap, L))
			return false
		}
		for _, i := range []int{0, 1, L / 2, 65533, 65534, 65535, 65536, 131071, 131072, L - 2, L - 1, L} {
			if i < 0 {
				continue
			}
			gv, gok := s.Index(i)
			wv, wok := m.Index(i)
			if gok != wok || !SameValue(gv, wv) {
				fail(op, "Index", fmt.Sprintf("Index(%d)=(%s,%v), the ordered list has (%s,%v) at Len %d", i, Show(gv), gok, Show(wv), wok, L))
				return false
			}
		}
		return true
	}
	step := func(op LOp) bool {
		op = op.Resolve(m.Len())
		if len(op.Vals) > 8 {
			log = append(log, fmt.Sprintf("%s(%d values)", op.K, len(op.Vals)))
		} else {
			log = append(log, op.String())
		}
		if a, d := ApplyLOp(s, m, op); a != "" {
			fail(op, a, d)
			return false
		}
		return spot(op)
	}
	ok := true
	for m.Len() < target && ok {
		k := r.Range(1, 9000)
		if r.Chance(1, 3) {
			k = r.Range(1, 40)
			if room := target - m.Len(); room > 200 {
				k = room - r.Range(0, 3) // right up to the brim, or just short of it
			}
		}
		vals := make([]any, k)
		for i := range vals {
			vals[i] = next()
		}
		ok = step(LOp{K: "Push", Vals: vals})
	}
	if ok {
		ok = step(LOp{K: "Push", Vals: []any{next()}}) // full: refused
	}
	if ok {
		ok = step(LOp{K: "Insert", Vals: []any{next()}, I: r.Intn(m.Len())}) // full: refused
	}
	if ok && r.Chance(1, 2) {
		ok = step(LOp{K: "Reverse"})
	}
	if ok && r.Chance(1, 2) {
		ok = step(LOp{K: "Swap", I: r.Intn(m.Len()), J: m.Len() - 1 - r.Intn(3)})
	}
	if ok && r.Chance(1, 2) {
		ok = step(LOp{K: "Replace", Vals: []any{next()}, I: []int{65535, 65536, m.Len() - 1, 32768}[r.Intn(4)] % m.Len()})
	}
	for i := 0; i < 3 && ok; i++ {
		ok = step(LOp{K: "Pop"})
		if ok {
			ok = step(LOp{K: "Insert", Vals: []any{next()}, I: []int{0, m.Len(), 65535, m.Len() - 1}[r.Intn(4)]})
		}
	}
	if ok {
		ok = step(LOp{K: "Remove", I: r.Intn(m.Len())})
	}
	if ok {
		ok = step(LOp{K: "Push", Vals: []any{next(), next(), next()}}) // room for one
	}
	if ok {
		if a, d := ObserveList(s, m); a != "" {
			fail(LOp{K: "end"}, a, d)
			return
		}
		ok = step(LOp{K: "Reset"})
	}
	if ok {
		ok = step(LOp{K: "Push", Vals: []any{next(), next()}})
	}
	if ok {
		c.Count("bigcap-histories")
		c.NontrivialStr(fmt.Sprintf("bigcap|%d", cfg.Cap>>12))
	}
}

func c01Run(c *core.Ctx, idx int) {
	maxLen, exh, _ := c01Tier(c.Tier)
	if idx >= exh && idx%97 == 96 {
		c01Sort(c)
		return
	}
	if idx >= exh && idx%9973 == 4986 {
		c01BigCap(c, idx)
		return
	}
	r := c.Rng
	cfg := randListCfg(r)
	next := uniqueVals()
	var ops []LOp
	start := 0
	exhaustive := idx < exh
	if !exhaustive {
		// look-alikes among the values: distinct pointers to equal data (the list holds THE value it was given, not one
		// that merely compares equal to it); compared by identity
		plain := next
		next = func() any {
			switch r.Intn(24) {
			case 0, 1, 2:
				p := new(int)
				*p = 5
				return p
			case 3:
				return (*int)(nil) // a typed nil pointer is a value like any other: stored, found, returned
			case 4:
				return []any{plain()} // a slice is ONE value, also when it is the only argument
			case 5:
				return []any{plain(), plain(), plain()}
			case 6:
				// a nested stack in which ONE sub-stack is reachable along two paths (acyclic all the same)
				leaf := stackage.Or().Push(plain())
				if r.Bool() {
					return stackage.And().Push(leaf, leaf)
				}
				return stackage.And().Push(stackage.List().Push(leaf), stackage.Not().Push(leaf))
			case 7:
				// a Stack / Condition variable that was never initialised, or was released: a value like any other
				switch r.Intn(3) {
				case 0:
					return stackage.Stack{}
				case 1:
					return stackage.Condition{}
				}
				f := stackage.Or().Push(plain())
				f.Free()
				return f
			}
			return plain()
		}
	}
	if exhaustive {
		start = idx % 4
		for _, sym := range c01Decode(idx/4, maxLen) {
			ops = append(ops, c01Symbol(sym, next))
		}
	}
	s, m := cfg.Build()
	// a second, unrelated stack that is worked on in between (random histories only): a stack's content is a function of
	// ITS OWN operations
	var by stackage.Stack
	var bm *ListModel
	if !exhaustive && r.Chance(1, 2) {
		bcfg := randListCfg(r)
		by, bm = bcfg.Build()
		c.Count("histories.with-bystander-stack")
	}
	var log []string
	kinds := map[string]bool{}
	maxL := 0
	fail := func(op LOp, aspect, detail string) {
		c.Violate(op.K+":"+aspect, fmt.Sprintf("after %s on [%s]: %s", op, cfg, detail),
			map[string]any{"cfg": cfg, "ops": log})
	}
	step := func(op LOp) bool {
		op = op.Resolve(m.Len())
		if (op.K == "Replace" || op.K == "Swap") && (op.I < 0 || op.I >= m.Len() || (op.K == "Swap" && (op.J < 0 || op.J >= m.Len()))) {
			return true // does not address an existing position: outside this property
		}
		if op.K == "Remove" && op.I < 0 && m.Len() == 0 {
			op.I = 0
		}
		if op.K == "Replace" {
			if _, same := op.Vals[0].(replaceWithWhatIsThere); same {
				op.Vals = []any{m.Items[op.I]} // replacing an element by itself changes nothing and succeeds like any Replace
			}
		}
		log = append(log, op.String())
		c.Count("op." + op.K)
		kinds[op.K] = true
		if a, d := ApplyLOp(s, m, op); a != "" {
			fail(op, a, d)
			return false
		}
		if a, d := ObserveList(s, m); a != "" {
			fail(op, a, d)
			return false
		}
		if bm != nil && r.Chance(1, 2) {
			bop := randListOp(r, bm.Len(), bm.Fifo, next).Resolve(bm.Len())
			if !((bop.K == "Replace" || bop.K == "Swap") && (bop.I < 0 || bop.I >= bm.Len() || (bop.K == "Swap" && (bop.J < 0 || bop.J >= bm.Len())))) {
				if bop.K == "Remove" && bop.I < 0 && bm.Len() == 0 {
					bop.I = 0
				}
				if a, d := ApplyLOp(by, bm, bop); a != "" {
					fail(bop, "bystander:"+a, d)
					return false
				}
				if a, d := ObserveList(by, bm); a != "" {
					fail(bop, "bystander:"+a, d)
					return false
				}
				if a, d := ObserveList(s, m); a != "" {
					c.Violate("other-stack:"+bop.K+":"+a, fmt.Sprintf("after %s on ANOTHER stack, this one [%s] changed: %s", bop, cfg, d), map[string]any{"cfg": cfg, "ops": log, "other_op": bop.String()})
					return false
				}
				c.Count("bystander-ops")
			}
		}
		if m.Len() > maxL {
			maxL = m.Len()
		}
		return true
	}
	ok := true
	if exhaustive {
		if start > 0 {
			vals := make([]any, start)
			for i := range vals {
				vals[i] = next()
			}
			ok = step(LOp{K: "Push", Vals: vals})
		}
		for _, op := range ops {
			if !ok {
				break
			}
			ok = step(op)
		}
		c.Count("histories.exhaustive")
	} else if idx%16 == 15 && cfg.Cap == 0 {
		// a long history: grow well past any small-array regime, then drain (re-sizing of the backing array in either
		// direction must never show in the content)
		target := r.Range(33, 130)
		for m.Len() < target && ok {
			n := r.Range(1, 9)
			vals := make([]any, n)
			for i := range vals {
				vals[i] = next()
			}
			ok = step(LOp{K: "Push", Vals: vals})
		}
		if ok && r.Chance(1, 4) {
			ok = step(LOp{K: "Reset"})
			if ok {
				ok = step(LOp{K: "Push", Vals: []any{next(), next()}})
			}
		}
		for m.Len() > 0 && ok {
			switch r.Intn(8) {
			case 0:
				ok = step(LOp{K: "Remove", I: r.Intn(m.Len())})
			case 1:
				ok = step(LOp{K: "Insert", Vals: []any{next()}, I: r.Intn(m.Len() + 1)})
				if ok {
					ok = step(LOp{K: "Pop"})
				}
			default:
				ok = step(LOp{K: "Pop"})
			}
		}
		if ok {
			ok = step(LOp{K: "Push", Vals: []any{next()}})
		}
		c.Count("histories.long")
	} else {
		for i := 0; i < 40 && ok; i++ {
			ok = step(randListOp(r, m.Len(), m.Fifo, next))
		}
		c.Count("histories.random")
	}
	capTag := "nocap"
	if cfg.Cap > 0 {
		capTag = "cap"
	}
	ord := "lifo"
	if m.Fifo {
		ord = "fifo"
	}
	c.Count("cell." + cfg.Kind + "." + ord + "." + capTag)
	if len(kinds) >= 3 && maxL >= 2 {
		c.NontrivialStr(cfg.String() + "|" + strings.Join(log, ";"))
	}
	if c.WantSample() && len(log) >= 3 && idx%7 == 0 {
		c.Sample(map[string]any{"cfg": cfg.String(), "ops": log, "final": m.String()})
	}
	if c.Verbose {
		fmt.Printf("cfg: %s\nops: %s\nfinal model: %s\n", cfg, strings.Join(log, "; "), m)
	}
}

func init() {
	core.Register(&core.Monitor{
		ID: "C01",
		Cases: func(tier string) int {
			_, e, r := c01Tier(tier)
			return e + r
		},
		Run: c01Run,
		Rule: "cases = all histories of length <= 3 (quick) / <= 4 (thorough) over a 14-symbol mutator alphabet on start lengths 0..3, " +
			"plus long histories (growth to 33..130 elements, optional Reset, full drain) and seeded random 40-op histories (batched pushes with 10% nil, Insert/Remove with indices in [-L-1,L+1], FIFO switched on mid-history); " +
			"each on a random kind x LIFO/FIFO x capacity {none,1,2,3,5} x negative/forward index options. After EVERY op the real stack's " +
			"Len/IsEmpty/Index(all positions and 5 out-of-range probes)/Front/Back/Cap/Avail/IsFull and the op's return values are compared with a sequential list model. " +
			"Half of the random histories run next to a bystander stack that is worked on in between (the observed stack must not change), and an eighth of their values are distinct pointers to equal data, compared by identity. " +
			"non-trivial = history uses >= 3 different mutator kinds and reaches Len >= 2; distinct = hash of (configuration, literal op list).",
		Assumptions: []string{
			"Replace/Swap are only issued on existing positions (out-of-range and negative indices are C08's domain)",
			"where the statement leaves a choice the model is set-valued: Remove on a nil slot may keep or drop the slot (flag false either way); Front/Back with nil at the relevant end may report (nil,false) or the nearest non-nil element",
			"element values are unique strings/ints and nil; the sequential list model is the author's reading of the statement",
		},
		Floors: func(tier string) map[string]int64 {
			f := map[string]int64{}
			for _, k := range []string{"Push", "Pop", "Insert", "Remove", "Replace", "Swap", "Reverse", "Reset"} {
				f["op."+k] = 100
			}
			f["histories.long"] = 500
			f["bigcap-histories"] = 10
			for _, k := range Kinds {
				for _, o := range []string{"lifo", "fifo"} {
					for _, cp := range []string{"cap", "nocap"} {
						f["cell."+k+"."+o+"."+cp] = 1
					}
				}
			}
			return f
		},
		Exhaustive: func(string) bool { return false },
	})
}
