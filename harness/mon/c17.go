package mon

import (
	"bytes"
	"fmt"
	"go/ast"
	"go/parser"
	"go/token"
	"log"
	"math"
	"os"
	"path/filepath"
	"reflect"
	"sort"
	"strings"
	"sync"

	stackage "github.com/JesseCoretta/go-stackage"
	"verifharness/core"
)

// C17 — uninitialised and freed instances are inert, not dangerous.

var c17States = []string{"zero-stack", "freed-stack", "zero-cond", "freed-cond", "init-cond", "nil-aux", "aux"}

func c17Pools(log *CallLog) *Pools {
	return &Pools{
		Any: []any{"x", nil, 7, stackage.Stack{}, stackage.Condition{}, stackage.And().Push("e"), []any{"AND", "a", "b"},
			(*stackage.Stack)(nil), stackage.Cond("k", stackage.Eq, "v"), stackage.List(4).Push("capped"), c17OpOnlyCond(), stackage.Cond("", stackage.Ge, "x"),
			new(any), new(error), c17BoxedPtr()}, // (pointers to interface variables holding nothing / holding a Stack)
		Ints: []int{0, -1, 1, 3},
		Strs: []string{"x", "", "_random", "_addr"},
		Log:  log,
	}
}

func c17BoxedPtr() any {
	var x any = stackage.Or().Push("boxed")
	return &x
}

// c17OpOnlyCond: an initialised Condition that has an operator but neither keyword nor expression.
func c17OpOnlyCond() stackage.Condition {
	var c stackage.Condition
	c.Init()
	return c.SetOperator(stackage.Eq)
}

// c17Receiver builds a fresh receiver in the named state; returns a pointer value so that pointer methods are reachable.
func c17Receiver(state string) (recv reflect.Value, isStack, isCond bool) {
	switch state {
	case "zero-stack":
		var s stackage.Stack
		return reflect.ValueOf(&s), true, false
	case "freed-stack":
		s := stackage.And().Push(1, 2).SetID("was-alive")
		s.Free()
		return reflect.ValueOf(&s), true, false
	case "zero-cond":
		var c stackage.Condition
		return reflect.ValueOf(&c), false, true
	case "freed-cond":
		c := stackage.Cond("k", stackage.Eq, "v")
		c.Free()
		return reflect.ValueOf(&c), false, true
	case "init-cond":
		var c stackage.Condition
		c.Init()
		return reflect.ValueOf(&c), false, true
	case "nil-aux":
		var a stackage.Auxiliary
		return reflect.ValueOf(&a).Elem(), false, false
	}
	a := stackage.Auxiliary{"k": 1}
	return reflect.ValueOf(&a).Elem(), false, false
}

type c17Call struct {
	state string
	spec  CallSpec
}

var (
	c17Once  sync.Once
	c17Calls []c17Call
)

func c17Enum() {
	p := c17Pools(nil)
	for _, st := range c17States {
		recv, _, _ := c17Receiver(st)
		for _, cs := range EnumCalls(recv.Type(), p) {
			c17Calls = append(c17Calls, c17Call{st, cs})
		}
	}
}

// ---- package-level functions: table cross-checked against the sources

type pkgCall struct {
	fn   string
	desc string
	run  func() []any
}

func c17PkgCalls() []pkgCall {
	awk := []any{nil, 0, "x", stackage.Stack{}, stackage.Condition{}, (*stackage.Stack)(nil), (*AStack)(nil), AStack{}, ACond{}, 3.5, []any{}, map[string]int{}}
	var out []pkgCall
	ctor := func(name string, f func(...int) stackage.Stack) {
		for _, a := range [][]int{nil, {0}, {-1}, {3}, {1000}, {2, 5}} {
			a := a
			out = append(out, pkgCall{name, fmt.Sprintf("%s(%v)", name, a), func() []any {
				s := f(a...)
				if !s.IsInit() || s.Len() != 0 {
					panic("constructor returned an unusable stack")
				}
				return nil
			}})
		}
	}
	ctor("And", stackage.And)
	ctor("Or", stackage.Or)
	ctor("Not", stackage.Not)
	ctor("List", stackage.List)
	ctor("Basic", stackage.Basic)
	for _, kw := range awk {
		for _, op := range []stackage.Operator{nil, stackage.Eq, stackage.ComparisonOperator(0), UserOp{"", ""}} {
			for _, ex := range []any{nil, "", "v", stackage.Stack{}, stackage.Condition{}} {
				kw, op, ex := kw, op, ex
				out = append(out, pkgCall{"Cond", fmt.Sprintf("Cond(%s,%v,%s)", Show(kw), op, Show(ex)), func() []any {
					c := stackage.Cond(kw, op, ex)
					_ = c.String()
					_ = c.Valid()
					return nil
				}})
			}
		}
	}
	for _, a := range awk {
		a := a
		out = append(out, pkgCall{"ConvertStack", "ConvertStack(" + Show(a) + ")", func() []any {
			s, ok := stackage.ConvertStack(a)
			if _, native := a.(stackage.Stack); !native && (ok || s.IsInit()) {
				panic("ConvertStack converted a zero/foreign value")
			}
			return nil
		}})
		out = append(out, pkgCall{"ConvertCondition", "ConvertCondition(" + Show(a) + ")", func() []any {
			c, ok := stackage.ConvertCondition(a)
			if _, native := a.(stackage.Condition); !native && (ok || c.IsInit()) {
				panic("ConvertCondition converted a zero/foreign value")
			}
			return nil
		}})
		out = append(out, pkgCall{"SetDefaultStackLogger", "SetDefaultStackLogger(" + Show(a) + ")", func() []any {
			stackage.SetDefaultStackLogger(a)
			stackage.SetDefaultStackLogger("none")
			return nil
		}})
		out = append(out, pkgCall{"SetDefaultConditionLogger", "SetDefaultConditionLogger(" + Show(a) + ")", func() []any {
			stackage.SetDefaultConditionLogger(a)
			stackage.SetDefaultConditionLogger("none")
			return nil
		}})
		out = append(out, pkgCall{"SetDefaultStackLogLevel", "SetDefaultStackLogLevel(" + Show(a) + ")", func() []any {
			stackage.SetDefaultStackLogLevel(a)
			_ = stackage.DefaultStackLogLevel()
			stackage.SetDefaultStackLogLevel(0)
			return nil
		}})
		out = append(out, pkgCall{"SetDefaultConditionLogLevel", "SetDefaultConditionLogLevel(" + Show(a) + ")", func() []any {
			stackage.SetDefaultConditionLogLevel(a)
			_ = stackage.DefaultConditionLogLevel()
			stackage.SetDefaultConditionLogLevel(0)
			return nil
		}})
	}
	out = append(out, pkgCall{"DefaultStackLogLevel", "DefaultStackLogLevel()", func() []any { return []any{stackage.DefaultStackLogLevel()} }})
	out = append(out, pkgCall{"DefaultConditionLogLevel", "DefaultConditionLogLevel()", func() []any { return []any{stackage.DefaultConditionLogLevel()} }})
	return out
}

// RepoDir is where the library sources live.
func RepoDir() string {
	if d := os.Getenv("VERIF_REPO"); d != "" {
		return d
	}
	return "/repo"
}

// exportedFuncs parses the repository (non-test, non-verif files) and lists exported package-level functions
// and exported methods per receiver type.
func exportedFuncs() (funcs []string, methods map[string][]string, err error) {
	methods = map[string][]string{}
	files, _ := filepath.Glob(filepath.Join(RepoDir(), "*.go"))
	fset := token.NewFileSet()
	for _, f := range files {
		if strings.HasSuffix(f, "_test.go") || strings.Contains(filepath.Base(f), "verif_hooks") {
			continue
		}
		af, e := parser.ParseFile(fset, f, nil, 0)
		if e != nil {
			return nil, nil, e
		}
		for _, d := range af.Decls {
			fd, ok := d.(*ast.FuncDecl)
			if !ok || !fd.Name.IsExported() {
				continue
			}
			if fd.Recv == nil {
				funcs = append(funcs, fd.Name.Name)
				continue
			}
			t := fd.Recv.List[0].Type
			if st, ok := t.(*ast.StarExpr); ok {
				t = st.X
			}
			if id, ok := t.(*ast.Ident); ok {
				methods[id.Name] = append(methods[id.Name], fd.Name.Name)
			}
		}
	}
	sort.Strings(funcs)
	return
}

func isZeroResult(v reflect.Value) bool {
	switch v.Kind() {
	case reflect.Interface, reflect.Ptr, reflect.Map, reflect.Slice, reflect.Func:
		return v.IsNil() || (v.Kind() == reflect.Slice && v.Len() == 0) || (v.Kind() == reflect.Map && v.Len() == 0)
	}
	return v.IsZero()
}

// c17Sentinel: documented non-zero answers of uninitialised instances.
func c17Sentinel(method string, i int, v reflect.Value) bool {
	switch method {
	case "Kind":
		return v.Kind() == reflect.String && v.String() == "<invalid_stack>"
	case "ID":
		return v.Kind() == reflect.String && v.String() == "unspecified"
	case "Addr":
		return v.Kind() == reflect.String
	case "IsEmpty", "IsZero", "IsPadded":
		return v.Kind() == reflect.Bool
	case "Valid", "IsEqual", "Free", "Marshal":
		return v.Type() == tErr
	}
	return false
}

func c17Tier(tier string) (enum, pkg, lifecycle, seqs int) {
	c17Once.Do(c17Enum)
	enum, pkg = len(c17Calls), len(c17PkgCalls())
	if tier == "thorough" {
		return enum, pkg, 200000, 2000000
	}
	return enum, pkg, 20000, 30000
}

func c17CheckInert(c *core.Ctx, state string, recv reflect.Value, cs CallSpec, results []reflect.Value, isStack, isCond bool, trail []string) bool {
	desc := map[string]any{"state": state, "calls": trail}
	initialising := cs.Method == "Marshal" || cs.Method == "Init"
	if state == "init-cond" && cs.Method == "Free" {
		// an Init()-only Condition is initialised (and writable): Free must release it
		cd := recv.Elem().Interface().(stackage.Condition)
		if !cd.IsZero() || cd.IsInit() || (len(results) == 1 && !results[0].IsNil()) {
			c.Violatef("Free:not-zero:init-only-condition", desc, "Free on an Init()-only Condition: result %s IsZero=%v IsInit=%v", ResultDesc(results), cd.IsZero(), cd.IsInit())
			return false
		}
	}
	if state == "init-cond" || state == "nil-aux" || state == "aux" {
		return true
	}
	if !initialising {
		var zero, init bool
		if isStack {
			s := recv.Elem().Interface().(stackage.Stack)
			zero, init = s.IsZero(), s.IsInit()
		} else if isCond {
			cd := recv.Elem().Interface().(stackage.Condition)
			zero, init = cd.IsZero(), cd.IsInit()
		}
		if !zero || init {
			c.Violatef("came-to-life:"+cs.Method, desc, "%s on a %s receiver brought it to life (IsZero=%v IsInit=%v)", cs.Desc, state, zero, init)
			return false
		}
	}
	if (cs.Method == "Valid" || cs.Method == "IsEqual") && len(results) == 1 && results[0].IsNil() {
		// the zero result of these two is an error: an uninitialised instance is neither valid nor equal to anything
		c.Violatef("nil-error:"+cs.Method, desc, "%s on a %s receiver returned a nil error", cs.Desc, state)
		return false
	}
	for i, r := range results {
		if initialising || isZeroResult(r) || c17Sentinel(cs.Method, i, r) {
			continue
		}
		// fluent results: the (still uninitialised) receiver itself
		if r.Type() == tStack {
			if !r.Interface().(stackage.Stack).IsInit() {
				continue
			}
		}
		if r.Type() == tCond {
			if !r.Interface().(stackage.Condition).IsInit() {
				continue
			}
		}
		c.Violatef("non-zero-result:"+cs.Method, desc, "%s on a %s receiver returned %s (result %d is not a zero value)", cs.Desc, state, ResultDesc(results), i)
		return false
	}
	return true
}

// c17InitOverLive: Condition.Init's "purpose is to initialise" - whatever the variable held before. Afterwards the variable
// holds exactly what Init gives a zero variable (nothing of the previous occupant: no keyword, option, identifier, level or
// logger of its), also when the previous occupant was read-only; a handle copied beforehand still reads what it read.
func c17InitOverLive(c *core.Ctx, r *core.Rng) {
	cd := stackage.Cond("prev", stackage.Ge, "occupant")
	var did []string
	step := func(name string, f func()) {
		if r.Bool() {
			f()
			did = append(did, name)
		}
	}
	step("SetLogger(custom)", func() { cd.SetLogger(log.New(NullWriter{}, "prev ", 0)) })
	step("SetLogLevel(error,user3)", func() { cd.SetLogLevel(stackage.LogLevel5, stackage.UserLogLevel3) })
	step("SetID", func() { cd.SetID("prev-id") })
	step("SetCategory", func() { cd.SetCategory("prev-cat") })
	step("SetEncap", func() { cd.SetEncap(`"`) })
	step("SetParen", func() { cd.SetParen(true) })
	step("SetNoNesting", func() { cd.SetNoNesting(true) })
	step("SetAuxiliary", func() { cd.SetAuxiliary(map[string]any{"p": 1}) })
	step("SetValidityPolicy", func() { cd.SetValidityPolicy(func(...any) error { return nil }) })
	step("SetErr", func() { cd.SetErr(errPolicyRejects) })
	step("SetReadOnly", func() { cd.SetReadOnly(true) })
	kept := cd
	keptBefore, _ := Take(kept)
	desc := map[string]any{"previous_occupant": did}
	if p, msg, site := Guard(func() { cd.Init() }); p {
		c.Violatef("panic:"+site+":Init-over-live", desc, "Init on a variable holding a live Condition panicked: %s", msg)
		return
	}
	var ref stackage.Condition
	ref.Init()
	read := func(x stackage.Condition) string {
		return fmt.Sprintf("id=%q cat=%q paren=%v encap=%v padded=%v cannest=%v nesting=%v ro=%v levels=%q logger=%p aux=%v err=%v kw=%q op=%v ex=%v text=%q valid=%v len=%d init=%v zero=%v",
			x.ID(), x.Category(), x.IsParen(), x.IsEncap(), x.IsPadded(), x.CanNest(), x.IsNesting(), x.IsReadOnly(), x.LogLevels(), x.Logger(), x.Auxiliary(), x.Err(),
			x.Keyword(), x.Operator(), x.Expression(), x.String(), x.Valid() == nil, x.Len(), x.IsInit(), x.IsZero())
	}
	if d := ""; read(cd) != read(ref) {
		d = read(cd) + " <> " + read(ref)
		c.Violatef("Init-over-live", desc, "after Init on a variable that held a configured Condition %v the variable differs from a freshly initialised one: %s (levels %q vs %q, read-only %v, keyword %q)", did, d, cd.LogLevels(), ref.LogLevels(), cd.IsReadOnly(), cd.Keyword())
		return
	}
	cd.SetKeyword("fresh")
	if cd.Keyword() != "fresh" {
		c.Violatef("Init-over-live", desc, "the re-initialised Condition refuses SetKeyword (previous occupant: %v)", did)
		return
	}
	if now, _ := Take(kept); Diff(keptBefore, now, DiffOpts{Raw: true}) != "" {
		c.Violatef("Init-over-live:kept-handle", desc, "a copy of the handle taken before Init changed: %s", Diff(keptBefore, now, DiffOpts{Raw: true}))
		return
	}
	c.Count("init-over-live-condition")
}

func c17Run(c *core.Ctx, idx int) {
	enum, pkg, life, _ := c17Tier(c.Tier)
	r := c.Rng
	switch {
	case idx < enum:
		k := c17Calls[idx]
		if idx%3 == 1 {
			// with user-installed package defaults (logger, log level) in force, dead receivers are still inert
			custom := log.New(&bytes.Buffer{}, "", 0)
			stackage.SetDefaultStackLogger(custom)
			stackage.SetDefaultConditionLogger(custom)
			stackage.SetDefaultStackLogLevel(stackage.AllLogLevels)
			stackage.SetDefaultConditionLogLevel(stackage.AllLogLevels)
			defer RestoreProcDefaults()
			c.Count("calls.with-package-defaults")
		}
		recv, isStack, isCond := c17Receiver(k.state)
		// re-synthesise the arguments so closures/log are fresh
		res, p, msg, site := Invoke(recv, k.spec)
		c.Count("calls." + k.state)
		if p {
			c.Violatef("panic:"+site+":"+k.spec.Method, map[string]any{"state": k.state, "call": k.spec.Desc}, "%s on a %s receiver panicked: %s", k.spec.Desc, k.state, msg)
			return
		}
		if c17CheckInert(c, k.state, recv, k.spec, res, isStack, isCond, []string{k.spec.Desc}) {
			c.NontrivialStr(k.state + "|" + k.spec.Desc)
		}
		if c.WantSample() && idx%173 == 5 {
			c.Sample(map[string]any{"state": k.state, "call": k.spec.Desc, "result": ResultDesc(res)})
		}
	case idx < enum+pkg:
		pc := c17PkgCalls()[idx-enum]
		if p, msg, site := Guard(func() { pc.run() }); p {
			c.Violatef("panic:"+site+":"+pc.fn, map[string]any{"call": pc.desc}, "%s panicked: %s", pc.desc, msg)
			return
		}
		c.Count("calls.package-function")
		c.NontrivialStr("pkg|" + pc.desc)
	case idx < enum+pkg+life && idx%25 == 12:
		c17InitOverLive(c, r)
	case idx < enum+pkg+life:
		c17Lifecycle(c, r)
	default:
		// random call sequences on one zero/freed receiver
		st := c17States[r.Intn(4)]
		recv, isStack, isCond := c17Receiver(st)
		var pool []CallSpec
		for _, k := range c17Calls {
			if k.state == st {
				pool = append(pool, k.spec)
			}
		}
		var trail []string
		for i := 0; i < 6; i++ {
			cs := pool[r.Intn(len(pool))]
			if cs.Method == "Marshal" || cs.Method == "Init" {
				continue
			}
			trail = append(trail, cs.Desc)
			res, p, msg, site := Invoke(recv, cs)
			if p {
				c.Violatef("panic:"+site+":"+cs.Method, map[string]any{"state": st, "calls": trail}, "%s on a %s receiver panicked (after %v): %s", cs.Desc, st, trail, msg)
				return
			}
			if !c17CheckInert(c, st, recv, cs, res, isStack, isCond, trail) {
				return
			}
		}
		c.Count("sequences")
		c.NontrivialStr(st + "|" + strings.Join(trail, ";"))
	}
}

// c17Lifecycle: Free and Reset on live instances.
func c17Lifecycle(c *core.Ctx, r *core.Rng) {
	switch r.Intn(3) {
	case 0: // Reset keeps kind, capacity, options, policies; removes everything incl. nils
		kind := Kinds[r.Intn(5)]
		capacity := []int{0, 0, 4, 9}[r.Intn(4)]
		s := NewStack(kind, capacity)
		if r.Bool() {
			s.SetFIFO(true)
		}
		for _, o := range stackOpts[:7] {
			if r.Chance(1, 3) {
				o.Set(s, true)
			}
		}
		s.SetNoNesting(false)
		s.SetID("id").SetCategory("cat")
		if r.Bool() {
			s.SetPushPolicy(func(...any) error { return nil })
		}
		if r.Bool() {
			s.SetValidityPolicy(func(...any) error { return nil })
		}
		// every other user closure and setting as well ("keeping ... options and policies": nothing of the configuration
		// is the content's)
		if r.Bool() {
			s.SetLessFunc(func(i, j int) bool { return i > j })
		}
		if r.Bool() && kind != "BASIC" {
			s.SetPresentationPolicy(func(...any) string { return "p" })
		}
		if r.Bool() {
			s.SetEqualityPolicy(func(any, any) error { return nil })
		}
		if r.Bool() {
			s.SetMarshaler(func(...any) error { return nil })
			s.SetUnmarshaler(func(...any) ([]any, error) { return nil, nil })
		}
		if r.Bool() {
			s.SetAuxiliary(stackage.Auxiliary{"k": "v"})
			s.SetLogLevel(stackage.LogLevel(1 + r.Intn(4000)))
		}
		if r.Bool() && kind != "LIST" {
			s.SetSymbol("&")
		}
		if r.Bool() {
			s.SetEncap("'")
		}
		if r.Bool() {
			s.SetMutex()
		}
		n := r.Range(0, 6)
		if r.Chance(1, 60) {
			n = r.Range(4200, 6000) // far beyond any "small stack" regime
			c.Count("lifecycle.reset.huge")
		}
		nils := 0
		for i := 0; i < n; i++ {
			if r.Chance(2, 5) {
				s.Push(nil)
				nils++
			} else {
				s.Push(i)
			}
		}
		// a history that rebuilt the backing array before the Reset
		hist := ""
		if s.Len() > 0 && r.Chance(1, 2) {
			switch r.Intn(3) {
			case 0:
				for i := 0; i < s.Len(); i++ {
					if _, ok := s.Remove(i); ok {
						break
					}
				}
				hist = "Remove"
			case 1:
				s.Pop()
				s.Insert("front", 0)
				hist = "Pop+Insert(front)"
			default:
				s.Pop()
				s.Push(nil)
				hist = "Pop+Push(nil)"
			}
		}
		before, _ := stackage.VerifDump(s)
		nils = 0
		for _, v := range before.Slots {
			if v == nil {
				nils++
			}
		}
		desc := map[string]any{"kind": kind, "cap": capacity, "len": s.Len(), "nils": nils, "opt": before.Opt, "history": hist}
		if p, msg, site := Guard(func() { s.Reset() }); p {
			c.Violatef("panic:"+site+":Reset", desc, "Reset panicked after %s: %s", hist, msg)
			return
		}
		if false {
			s.Reset()
		}
		after, _ := stackage.VerifDump(s)
		if s.Len() != 0 || !s.IsEmpty() || len(after.Slots) != 0 {
			c.Violatef("Reset:not-empty", desc, "Reset left %d elements (Len %d) on a stack that held %d nil elements", len(after.Slots), s.Len(), nils)
			return
		}
		if d := CfgDiff(before, after, 0); d != "" {
			c.Violatef("Reset:config", desc, "Reset changed the configuration: %s", d)
			return
		}
		if !s.IsInit() || s.Kind() == "<invalid_stack>" {
			c.Violatef("Reset:destroyed", desc, "stack unusable after Reset")
			return
		}
		s.SetReadOnly(false)
		c.Count("lifecycle.reset")
		if nils > 0 {
			c.Count("lifecycle.reset.with-nils")
			c.NontrivialStr("reset|" + core.JSON(desc))
		}
	case 1: // Stack.Free
		s := NewStack(Kinds[r.Intn(5)], 0).Push(1, nil, "x")
		switch r.Intn(4) {
		case 0:
			s.Reset() // empty
		case 1:
			s.SetValidityPolicy(func(...any) error { return fmt.Errorf("never valid") }) // initialised but "invalid"
		case 2:
			s.SetErr(fmt.Errorf("pending error"))
		case 3:
			// a read-only member somewhere inside does not make the (writable) receiver unfreeable
			inner := stackage.List().Push("in").SetReadOnly(true)
			s.Push(stackage.Or().Push(stackage.Cond("kw", stackage.Eq, inner)), inner)
		}
		ro := r.Bool()
		if ro {
			s.SetReadOnly(true)
		}
		lenBefore := s.Len()
		// other handles of the same instance: a copy of the handle, and a parent that holds it. Free zeroes the handle
		// it is called on; it is not a licence for calls through the other handles to panic
		held := s
		parent := stackage.And().Push("p", s)
		mutexed := r.Chance(1, 3)
		var err error
		if mutexed && !ro {
			// Free issued from inside a user closure that runs while the instance's own lock is held
			s.SetMutex()
			scratch := s
			var inner error
			s.SetPushPolicy(func(...any) error { inner = scratch.Free(); return nil })
			s.Push("trigger")
			lenBefore = -1
			if inner != nil || scratch.IsInit() || !scratch.IsZero() {
				c.Violatef("Free:inside-closure", map[string]any{"ro": false}, "Free called from a push policy (lock held by the same call): err=%v IsInit=%v", inner, scratch.IsInit())
				return
			}
			c.Count("lifecycle.free.inside-closure")
		}
		err = s.Free()
		if !ro {
			var where, msg, site string
			if p, m, si := Guard(func() { where, msg, site = Battery(held) }); p {
				where, msg, site = "battery", m, si
			}
			if where == "" {
				if p, m, si := Guard(func() { where, msg, site = Battery(parent) }); p {
					where, msg, site = "battery(parent)", m, si
				} else if where != "" {
					where += " (parent)"
				}
			}
			if where != "" {
				c.Violatef("Free:other-handle-panics", map[string]any{"ro": false}, "after Free through one handle, %s through another handle of the same Stack panicked (%s): %s", where, site, msg)
				return
			}
			c.Count("lifecycle.free.other-handles-usable")
		}
		if ro {
			if err == nil || !s.IsInit() || s.IsZero() || s.Len() != lenBefore {
				c.Violatef("Free:read-only", map[string]any{"ro": true}, "Free on a read-only Stack: err=%v IsInit=%v Len=%d", err, s.IsInit(), s.Len())
				return
			}
		} else if err != nil || !s.IsZero() || s.IsInit() {
			c.Violatef("Free:not-zero", map[string]any{"ro": false}, "Free: err=%v IsZero=%v IsInit=%v", err, s.IsZero(), s.IsInit())
			return
		}
		c.Count("lifecycle.free.stack")
		c.NontrivialStr(fmt.Sprintf("free-stack|%v", ro))
	default: // Condition.Free — on complete, partially assembled, Init()-only and re-initialised Conditions alike
		cd := stackage.Cond("k", stackage.Eq, "v")
		variant := r.Intn(6)
		switch variant {
		case 1:
			cd.Init()
		case 2:
			cd.Init()
			cd.SetKeyword("k").SetOperator(stackage.Eq)
		case 3:
			cd = stackage.Cond("k", stackage.Eq, nil)
		case 4:
			cd.Free()
			cd.Init()
		case 5:
			cd.SetValidityPolicy(func(...any) error { return fmt.Errorf("never valid") })
		}
		c.Count(fmt.Sprintf("lifecycle.free.condition.variant%d", variant))
		ro := r.Bool()
		if ro {
			cd.SetReadOnly(true)
		}
		heldC := cd
		parentC := stackage.And().Push("p", cd)
		err := cd.Free()
		if !ro {
			where, msg, site := condBattery(heldC)
			if where == "" {
				where, msg, site = Battery(parentC)
			}
			if where != "" {
				c.Violatef("Free:other-handle-panics:cond", map[string]any{"ro": false}, "after Free through one handle, %s through another handle of the same Condition panicked (%s): %s", where, site, msg)
				return
			}
			c.Count("lifecycle.free.other-handles-usable")
		}
		if ro {
			if err == nil || !cd.IsInit() {
				c.Violatef("Free:read-only:cond", map[string]any{"ro": true}, "Free on a read-only Condition: err=%v IsInit=%v", err, cd.IsInit())
				return
			}
		} else if err != nil || !cd.IsZero() || cd.IsInit() {
			c.Violatef("Free:not-zero:cond", map[string]any{"ro": false}, "Free: err=%v IsZero=%v IsInit=%v", err, cd.IsZero(), cd.IsInit())
			return
		}
		c.Count("lifecycle.free.condition")
		c.NontrivialStr(fmt.Sprintf("free-cond|%v", ro))
	}
}

func c17Setup(c *core.Ctx) {
	// every exported package-level function must be in the table, every exported method reachable by reflection
	funcs, methods, err := exportedFuncs()
	if err != nil {
		c.Inconclusive("cannot parse the repository sources: " + err.Error())
		return
	}
	have := map[string]bool{}
	for _, pc := range c17PkgCalls() {
		have[pc.fn] = true
	}
	for _, f := range funcs {
		if !have[f] {
			c.Inconclusive("exported package-level function " + f + " is not in C17's call table")
		}
	}
	reach := map[string]map[string]bool{"Stack": {}, "Condition": {}, "Auxiliary": {}}
	for _, n := range MethodNames(reflect.TypeOf(&stackage.Stack{})) {
		reach["Stack"][n] = true
	}
	for _, n := range MethodNames(reflect.TypeOf(&stackage.Condition{})) {
		reach["Condition"][n] = true
	}
	for _, n := range MethodNames(tAux) {
		reach["Auxiliary"][n] = true
	}
	for typ, ms := range methods {
		if r, ok := reach[typ]; ok {
			for _, m := range ms {
				if !r[m] {
					c.Inconclusive("exported method " + typ + "." + m + " is not reachable by reflection")
				}
			}
		}
	}
	c.Notes["exported_package_functions"] = strings.Join(funcs, ",")
	c.Notes["methods_enumerated"] = fmt.Sprintf("Stack=%d Condition=%d Auxiliary=%d", len(reach["Stack"]), len(reach["Condition"]), len(reach["Auxiliary"]))
}

func init() {
	_ = math.MaxInt
	core.Register(&core.Monitor{
		ID: "C17",
		Cases: func(tier string) int {
			a, b, l, s := c17Tier(tier)
			return a + b + l + s
		},
		Run:   c17Run,
		Setup: c17Setup,
		Rule: "every exported method of *Stack, *Condition and Auxiliary (enumerated by reflection at run time) x argument variants (each parameter varied through a pool: bools, ints, strings, `any` values incl. nil/zero Stack/zero Condition/typed nil, recording closures and nil funcs, variadics with 0/1/2 values) " +
			"x receiver states {zero Stack, freed Stack, zero Condition, freed Condition, Init()-only Condition, nil Auxiliary, Auxiliary}; every exported package-level function (table cross-checked against go/parser over the repository: a missing function makes the run inconclusive) x awkward arguments; " +
			"Free/Reset lifecycle cases on live, configured instances holding nil elements; random 6-call sequences on one zero/freed receiver. Oracle: no panic, IsZero/IsInit unchanged (except Marshal/Init), every result a zero value, an error, or a documented sentinel. " +
			"non-trivial = every (state, call) pair that completed its checks; distinct = hash of (state, call description).",
		Assumptions: []string{"sentinels accepted on uninitialised receivers: Kind()=<invalid_stack>, ID()=unspecified, any Addr() text, true from IsEmpty/IsZero/IsPadded, any error from Free/Marshal; Valid and IsEqual must return a non-nil error there"},
		Floors: func(string) map[string]int64 {
			return map[string]int64{"calls.zero-stack": 150, "calls.freed-stack": 150, "calls.zero-cond": 80, "calls.freed-cond": 80, "calls.init-cond": 80,
				"calls.package-function": 100, "init-over-live-condition": 200, "cases.with-bystander-goroutines": 800, "lifecycle.reset.with-nils": 100, "lifecycle.free.stack": 100}
		},
		Exhaustive: func(string) bool { return false },
	})
}
