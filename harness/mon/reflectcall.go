package mon

import (
	"errors"
	"fmt"
	"log"
	"reflect"
	"sort"
	"strings"

	stackage "github.com/JesseCoretta/go-stackage"
)

// Reflection-driven method enumeration and argument synthesis (C08, C09, C11, C17): methods added to the
// library later are picked up automatically.

var (
	tAny      = reflect.TypeOf((*any)(nil)).Elem()
	tErr      = reflect.TypeOf((*error)(nil)).Elem()
	tOperator = reflect.TypeOf((*stackage.Operator)(nil)).Elem()
	tStack    = reflect.TypeOf(stackage.Stack{})
	tCond     = reflect.TypeOf(stackage.Condition{})
	tAux      = reflect.TypeOf(stackage.Auxiliary{})
	tLogger   = reflect.TypeOf((*log.Logger)(nil))
)

// CallLog records invocations of synthesised closures.
type CallLog struct{ Calls []string }

func (l *CallLog) hit(name string) {
	if l != nil {
		l.Calls = append(l.Calls, name)
	}
}

// Pools supplies candidate values per parameter type.
type Pools struct {
	Any  []any // values for `any` parameters
	Ints []int
	Strs []string
	Log  *CallLog
}

// ArgDesc renders an argument for case descriptions.
func ArgDesc(v reflect.Value) string {
	if !v.IsValid() {
		return "nil"
	}
	switch v.Kind() {
	case reflect.Func:
		if v.IsNil() {
			return "nil-func"
		}
		return "func"
	case reflect.Interface, reflect.Ptr, reflect.Map, reflect.Slice:
		if v.IsNil() {
			return "nil"
		}
	}
	if v.CanInterface() {
		return Show(v.Interface())
	}
	return v.String()
}

func (p *Pools) valuesFor(t reflect.Type) []reflect.Value {
	var out []reflect.Value
	switch {
	case t.Kind() == reflect.Bool:
		return []reflect.Value{reflect.ValueOf(true), reflect.ValueOf(false)}
	case t.Kind() == reflect.Int:
		for _, i := range p.Ints {
			out = append(out, reflect.ValueOf(i))
		}
		return out
	case t.Kind() == reflect.String:
		for _, s := range p.Strs {
			out = append(out, reflect.ValueOf(s))
		}
		return out
	case t == tAny:
		for _, a := range p.Any {
			if a == nil {
				out = append(out, reflect.Zero(tAny))
			} else {
				v := reflect.New(tAny).Elem()
				v.Set(reflect.ValueOf(a))
				out = append(out, v)
			}
		}
		return out
	case t == tErr:
		e := reflect.New(tErr).Elem()
		e.Set(reflect.ValueOf(errors.New("synthetic error")))
		return []reflect.Value{e, reflect.Zero(tErr)}
	case t == tOperator:
		a := reflect.New(tOperator).Elem()
		a.Set(reflect.ValueOf(stackage.Ne))
		b := reflect.New(tOperator).Elem()
		b.Set(reflect.ValueOf(UserOp{"~=", "custom"}))
		c := reflect.New(tOperator).Elem()
		c.Set(reflect.ValueOf((*stackage.ComparisonOperator)(nil))) // typed nil pointer satisfying Operator
		return []reflect.Value{a, b, reflect.Zero(tOperator), c}
	case t == tAux:
		return []reflect.Value{reflect.ValueOf(stackage.Auxiliary{"k": 1}), reflect.Zero(tAux)}
	case t.Kind() == reflect.Func:
		return []reflect.Value{p.makeFunc(t), reflect.Zero(t)}
	}
	return []reflect.Value{reflect.Zero(t)}
}

// makeFunc synthesises a closure of the given func type that records its invocation and returns zero values.
func (p *Pools) makeFunc(t reflect.Type) reflect.Value {
	name := t.Name()
	logp := p.Log
	return reflect.MakeFunc(t, func(args []reflect.Value) []reflect.Value {
		logp.hit(name)
		out := make([]reflect.Value, t.NumOut())
		for i := range out {
			out[i] = reflect.Zero(t.Out(i))
		}
		return out
	})
}

// CallSpec is one concrete invocation.
type CallSpec struct {
	Method string
	Args   []reflect.Value
	Desc   string
}

// EnumCalls lists, for every exported method of recvType, the all-first-values call plus one call per
// alternative value of each parameter (variadic parameters: none, one, two values).
func EnumCalls(recvType reflect.Type, p *Pools) []CallSpec {
	var out []CallSpec
	for i := 0; i < recvType.NumMethod(); i++ {
		m := recvType.Method(i)
		mt := m.Type // receiver is In(0)
		n := mt.NumIn() - 1
		cands := make([][][]reflect.Value, n) // per parameter: list of value-lists (variadic may contribute 0..2 values)
		for j := 0; j < n; j++ {
			pt := mt.In(j + 1)
			if mt.IsVariadic() && j == n-1 {
				vals := p.valuesFor(pt.Elem())
				cands[j] = append(cands[j], []reflect.Value{})
				for _, v := range vals {
					cands[j] = append(cands[j], []reflect.Value{v})
				}
				if len(vals) >= 2 {
					cands[j] = append(cands[j], []reflect.Value{vals[0], vals[1]})
					cands[j] = append(cands[j], []reflect.Value{vals[len(vals)-1], vals[0]})
				}
			} else {
				for _, v := range p.valuesFor(pt) {
					cands[j] = append(cands[j], []reflect.Value{v})
				}
			}
		}
		build := func(choice []int) CallSpec {
			var args []reflect.Value
			var ds []string
			for j := 0; j < n; j++ {
				vs := cands[j][choice[j]]
				args = append(args, vs...)
				for _, v := range vs {
					ds = append(ds, ArgDesc(v))
				}
			}
			return CallSpec{Method: m.Name, Args: args, Desc: m.Name + "(" + strings.Join(ds, ",") + ")"}
		}
		base := make([]int, n)
		out = append(out, build(base))
		for j := 0; j < n; j++ {
			for k := 1; k < len(cands[j]); k++ {
				ch := append([]int{}, base...)
				ch[j] = k
				out = append(out, build(ch))
			}
		}
	}
	return out
}

// Invoke calls the method on recv (a reflect.Value of the receiver type) under recover.
func Invoke(recv reflect.Value, cs CallSpec) (results []reflect.Value, panicked bool, msg, site string) {
	m := recv.MethodByName(cs.Method)
	if !m.IsValid() {
		return nil, true, "method not found: " + cs.Method, "harness"
	}
	panicked, msg, site = Guard(func() { results = m.Call(cs.Args) })
	return
}

// MethodNames lists the exported methods of a type.
func MethodNames(t reflect.Type) []string {
	var out []string
	for i := 0; i < t.NumMethod(); i++ {
		out = append(out, t.Method(i).Name)
	}
	sort.Strings(out)
	return out
}

// ResultDesc renders call results.
func ResultDesc(rs []reflect.Value) string {
	var ds []string
	for _, r := range rs {
		ds = append(ds, ArgDesc(r))
	}
	return "(" + strings.Join(ds, ",") + ")"
}

var _ = fmt.Sprintf
