package mon

import (
	"errors"
	"fmt"
	"reflect"
	"strings"

	stackage "github.com/JesseCoretta/go-stackage"
	"verifharness/core"
)

// C14 — user-supplied policies decide, exactly as documented.

func c14Tier(tier string) (push, seqs int) {
	if tier == "thorough" {
		return 7000000, 3000000
	}
	return 140000, 60000
}

func c14Push(c *core.Ctx) {
	r := c.Rng
	kind := Kinds[r.Intn(5)]
	capacity := []int{0, 0, 1, 2, 3, 4, 6}[r.Intn(7)]
	mod := r.Range(2, 5)
	accept := map[int]bool{}
	for i := 0; i < mod; i++ {
		if r.Chance(2, 3) {
			accept[i] = true
		}
	}
	acceptNil := r.Bool()
	acceptStacks := r.Bool()
	var calls [][]any
	var seenLens []int // what the closure finds in the receiver at each consult (approved values are IN by the next consult)
	var s stackage.Stack
	errs := map[int]error{}
	policy := func(x ...any) error {
		calls = append(calls, append([]any{}, x...))
		seenLens = append(seenLens, s.Len())
		if len(x) != 1 {
			return errors.New("policy called with an unexpected number of arguments")
		}
		if _, isStack := x[0].(stackage.Stack); isStack {
			if acceptStacks {
				return nil
			}
			e := errors.New("stack rejected")
			errs[-2] = e
			return e
		}
		if x[0] == nil {
			if acceptNil {
				return nil
			}
			e := errors.New("nil rejected")
			errs[-1] = e
			return e
		}
		id, _ := x[0].(int)
		if accept[id%mod] {
			return nil
		}
		var e error = fmt.Errorf("value %d rejected", id)
		if id%3 == 1 {
			e = listErr{"value", fmt.Sprint(id), "rejected"} // an error of an uncomparable type (identified by content)
		}
		errs[id] = e
		return e
	}
	s = NewStack(kind, capacity).SetPushPolicy(policy)
	if r.Chance(1, 4) {
		s.SetNoNesting(true) // documented to have no effect once a push policy is installed
	}
	m := &ListModel{Cap: capacity}
	var wantErr error
	var wantErrSet bool
	var log []string
	desc := func() map[string]any {
		return map[string]any{"kind": kind, "cap": capacity, "mod": mod, "accept": fmt.Sprint(accept), "accept_nil": acceptNil, "batches": log}
	}
	id := 0
	midReject, clipped := false, false
	for b, nb := 0, r.Range(1, 5); b < nb; b++ {
		n := r.Range(1, 6)
		if r.Chance(1, 15) {
			n = r.Range(30, 90) // one very long batch: "stops the batch" means the whole batch, however it is chunked
		}
		batch := make([]any, n)
		for i := range batch {
			if r.Chance(1, 12) {
				batch[i] = nil
			} else if r.Chance(1, 12) {
				batch[i] = stackage.Or().Push("in-batch")
			} else {
				id++
				batch[i] = id
			}
		}
		// between batches the slice is sometimes rebuilt (Remove / front Insert), which must not disturb the room arithmetic
		if b > 0 && m.Len() > 0 && r.Chance(1, 3) {
			if r.Bool() && m.Items[0] != nil { // (Remove cannot address a nil slot)
				s.Remove(0)
				m.RemoveAt(0)
				log = append(log, "Remove(0)")
			} else if !m.Full() {
				s.Insert(-5, 0)
				m.Insert(-5, 0)
				log = append(log, "Insert(-5,0)")
			}
		}
		log = append(log, fmt.Sprint(batch))
		// model
		var wantCalls [][]any
		var wantLens []int
		rejectedAt := -1
		for i, v := range batch {
			if m.Full() {
				clipped = true
				continue
			}
			wantCalls = append(wantCalls, []any{v})
			wantLens = append(wantLens, m.Len())
			ok := false
			if v == nil {
				ok = acceptNil
			} else if _, isStack := v.(stackage.Stack); isStack {
				ok = acceptStacks
			} else {
				ok = accept[v.(int)%mod]
			}
			if !ok {
				rejectedAt = i
				break
			}
			m.Items = append(m.Items, v)
		}
		if rejectedAt > 0 && rejectedAt < len(batch)-1 {
			midReject = true
		}
		calls = nil
		seenLens = nil
		for k := range errs {
			delete(errs, k)
		}
		if p, msg, site := Guard(func() { s.Push(batch...) }); p {
			c.Violatef("panic:"+site, desc(), "Push under a push policy panicked: %s", msg)
			return
		}
		c.Count("push-batches")
		if !reflect.DeepEqual(calls, wantCalls) {
			key := "policy-call-log"
			if len(calls) > len(wantCalls) {
				key = "policy-consulted-too-often"
			} else if len(calls) < len(wantCalls) {
				key = "policy-not-consulted"
			}
			c.Violatef(key, desc(), "policy call log %v, expected %v (batch %v, capacity %d, stored before %d)", calls, wantCalls, batch, capacity, m.Len()-len(wantCalls))
			return
		}
		if !reflect.DeepEqual(seenLens, wantLens) && len(wantLens) > 0 {
			c.Violatef("policy-sees-stale-receiver", desc(), "at its consults the policy found the receiver holding %v elements, expected %v (each approved value is appended before the next one is offered); batch %v", seenLens, wantLens, batch)
			return
		}
		if a, d := ObserveList(s, m); a != "" {
			c.Violatef("content:"+a, desc(), "after batch %v: %s", batch, d)
			return
		}
		if rejectedAt >= 0 {
			wantErrSet = true
			if batch[rejectedAt] == nil {
				wantErr = errs[-1]
			} else if _, isStack := batch[rejectedAt].(stackage.Stack); isStack {
				wantErr = errs[-2]
			} else {
				wantErr = errs[batch[rejectedAt].(int)]
			}
			c.Count("rejections")
		}
		if got := s.Err(); wantErrSet && !sameErr(got, wantErr) {
			c.Violatef("err-not-reported", desc(), "Err()=%v after the policy rejected with %v", got, wantErr)
			return
		} else if !wantErrSet && got != nil {
			c.Violatef("spurious-err", desc(), "Err()=%v although nothing was rejected", got)
			return
		}
	}
	// removing the policy restores plain appends
	s.SetPushPolicy(nil)
	calls = nil
	s.Push(-7)
	m.Push(-7)
	if len(calls) != 0 {
		c.Violatef("policy-not-removed", desc(), "the removed push policy was still consulted")
		return
	}
	if a, d := ObserveList(s, m); a != "" {
		c.Violatef("content-after-removal:"+a, desc(), "%s", d)
		return
	}
	if midReject && clipped {
		c.NontrivialStr(core.JSON(desc()))
		c.Count("histories.mid-batch-rejection-and-capacity-clip")
	} else if midReject {
		c.Count("histories.mid-batch-rejection")
	}
	if c.WantSample() && midReject && c.Idx%331 == 2 {
		c.Sample(desc())
	}
}

// sameErr: identity for comparable error values, content for the others.
func sameErr(a, b error) bool {
	if a == nil || b == nil {
		return a == nil && b == nil
	}
	if reflect.TypeOf(a) != reflect.TypeOf(b) {
		return false
	}
	if reflect.TypeOf(a).Comparable() {
		return a == b
	}
	return a.Error() == b.Error()
}

// listErr is an error whose type is not comparable.
type listErr []string

func (l listErr) Error() string { return strings.Join(l, " ") }

// ---- install/remove sequences of the other closures

func c14Closures(c *core.Ctx) {
	r := c.Rng
	if r.Chance(1, 3) {
		c14CondClosures(c)
		return
	}
	kind := Kinds[r.Intn(5)]
	fold := r.Chance(1, 3)
	paren, nopad, encap := r.Chance(1, 3), r.Chance(1, 4), r.Chance(1, 4)
	build := func() stackage.Stack {
		st := NewStack(kind, 0).Push("a", stackage.Or().Push("n1", "n2"), 7)
		if fold {
			st.SetFold(true)
		}
		// presentation options are the built-in renderer's business: a closure's result is returned as it is
		if paren {
			st.SetParen(true)
		}
		if nopad {
			st.SetNoPadding(true)
		}
		if encap {
			st.SetEncap(`"`)
		}
		return st
	}
	s, twin := build(), build()
	other := build()
	var log []string
	desc := func() map[string]any { return map[string]any{"kind": kind, "calls": log} }
	vErr := errors.New("validity closure says no")
	eErr := errors.New("equality closure says no")
	mErr := errors.New("marshal closure says no")
	mkEq := func(hits map[string]int, e error) stackage.EqualityPolicy {
		return func(a, b any) error { hits["equal"]++; return e }
	}
	mkMa := func(hits map[string]int, e error) stackage.Marshaler {
		return func(...any) error { hits["marshal"]++; return e }
	}
	uOut := []any{"CUSTOM", 1}
	var umErr error
	var installed struct{ vp, vpReject, pp, eq, um, ma bool }
	maNil := false
	hits := map[string]int{}
	for step, n := 0, r.Range(2, 6); step < n; step++ {
		switch r.Intn(10) {
		case 0:
			rej := r.Bool()
			s.SetValidityPolicy(func(...any) error {
				hits["valid"]++
				if rej {
					return vErr
				}
				return nil
			})
			installed.vp, installed.vpReject = true, rej
			log = append(log, fmt.Sprintf("SetValidityPolicy(reject=%v)", rej))
		case 1:
			s.SetValidityPolicy(nil)
			installed.vp = false
			log = append(log, "SetValidityPolicy(nil)")
		case 2:
			s.SetPresentationPolicy(func(...any) string { hits["present"]++; return "PRESENTED" })
			log = append(log, "SetPresentationPolicy(f)")
			if kind == "BASIC" {
				if s.Err() == nil {
					c.Violatef("basic-accepted-presentation-policy", desc(), "a BASIC stack accepted a presentation policy without recording an error")
					return
				}
				s.SetErr(nil)
				c.Count("basic-refusals")
			} else {
				installed.pp = true
			}
		case 3:
			s.SetPresentationPolicy(nil)
			installed.pp = false
			log = append(log, "SetPresentationPolicy(nil)")
		case 4:
			eErr = fmt.Errorf("equality closure #%d says no", step) // a NEW closure from the same literal, with its own result
			s.SetEqualityPolicy(mkEq(hits, eErr))
			installed.eq = true
			log = append(log, "SetEqualityPolicy(f)")
		case 5:
			if r.Bool() {
				s.SetEqualityPolicy()
				log = append(log, "SetEqualityPolicy()")
			} else {
				s.SetEqualityPolicy(nil)
				log = append(log, "SetEqualityPolicy(nil)")
			}
			installed.eq = false
		case 6:
			umErr = nil
			if r.Chance(1, 3) {
				umErr = errors.New("unmarshal closure: partial result") // a closure may hand back a slice AND the reason it is partial
			}
			ue := umErr
			s.SetUnmarshaler(func(...any) ([]any, error) { hits["unmarshal"]++; return uOut, ue })
			installed.um = true
			log = append(log, "SetUnmarshaler(f)")
		case 7:
			if r.Bool() {
				s.SetUnmarshaler()
				log = append(log, "SetUnmarshaler()")
			} else {
				s.SetUnmarshaler(nil)
				log = append(log, "SetUnmarshaler(nil)")
			}
			installed.um = false
		case 8:
			maNil = r.Chance(1, 3)
			if maNil {
				// a closure that reports success although the receiver picked up an error while it ran
				s.SetMarshaler(func(...any) error { hits["marshal"]++; s.SetErr(vErr); return nil })
			} else {
				mErr = fmt.Errorf("marshal closure #%d says no", step)
				s.SetMarshaler(mkMa(hits, mErr))
			}
			installed.ma = true
			log = append(log, "SetMarshaler(f)")
		case 9:
			if r.Bool() {
				s.SetMarshaler()
				log = append(log, "SetMarshaler()")
			} else {
				s.SetMarshaler(nil)
				log = append(log, "SetMarshaler(nil)")
			}
			installed.ma = false
		}
		c.Count("closure-steps.stack")
		// a closure keeps deciding while the instance is read-only (the flag is raised after the closures are in,
		// by any of its spellings, and lifted again after the observations)
		roNow := r.Chance(1, 4)
		if roNow {
			switch r.Intn(3) {
			case 0:
				s.SetReadOnly(true)
			case 1:
				s.ReadOnly(true)
			default:
				s.SetReadOnly()
			}
			twin.SetReadOnly(true)
			c.Count("closure-steps.observed-while-read-only")
		}
		// ---- observe and compare with the twin (which never had a closure)
		verr := s.Valid()
		if installed.vp {
			if (verr != nil) != installed.vpReject {
				c.Violatef("validity-closure-ignored", desc(), "Valid()=%v with a closure that rejects=%v", verr, installed.vpReject)
				return
			}
		} else if (verr != nil) != (twin.Valid() != nil) {
			c.Violatef("validity-not-restored", desc(), "Valid()=%v after removing the closure; built-in gives %v", verr, twin.Valid())
			return
		}
		str := s.String()
		switch {
		case installed.vp && installed.vpReject:
			if str != "" {
				c.Violatef("rejected-stack-renders", desc(), "String()=%q although the validity closure rejects the stack", str)
				return
			}
		case kind == "BASIC":
			if str != "" {
				c.Violatef("basic-renders", desc(), "String()=%q on a BASIC stack", str)
				return
			}
		case installed.pp:
			if str != "PRESENTED" {
				c.Violatef("presentation-closure-ignored", desc(), "String()=%q, closure returns PRESENTED", str)
				return
			}
		default:
			if want := twin.String(); str != want {
				c.Violatef("presentation-not-restored", desc(), "String()=%q, built-in gives %q", str, want)
				return
			}
		}
		eerr := s.IsEqual(other)
		if installed.eq {
			if eerr != eErr {
				c.Violatef("equality-closure-ignored", desc(), "IsEqual()=%v, closure returns its own error", eerr)
				return
			}
			// the closure decides for every Stack comparand, the receiver itself and aliases of it included
			if e1, e2, e3 := s.IsEqual(s), s.IsEqual(AStack(s)), s.IsEqual(twin); e1 != eErr || e2 != eErr || e3 != eErr {
				c.Violatef("equality-closure-ignored:self", desc(), "IsEqual(self)=%v IsEqual(alias of self)=%v IsEqual(twin)=%v, closure returns its own error", e1, e2, e3)
				return
			}
		} else if (eerr != nil) != (twin.IsEqual(other) != nil) {
			c.Violatef("equality-not-restored", desc(), "IsEqual()=%v, built-in gives %v", eerr, twin.IsEqual(other))
			return
		} else {
			// the ARGUMENT's closure is the argument's business: a receiver without a closure compares by the built-in
			// rule, whatever the comparand carries (an equal comparand with a vetoing closure, a different one with an
			// approving closure)
			armedCalls := 0
			vetoing := build().SetEqualityPolicy(func(any, any) error { armedCalls++; return eErr })
			approving := build().Push("one more").SetEqualityPolicy(func(any, any) error { armedCalls++; return nil })
			plainDifferent := build().Push("one more")
			// bring both to the receiver's current length (Marshal steps above may have grown it)
			for vetoing.Len() < s.Len() {
				vetoing.Marshal("AND", "x")
			}
			e1, e2 := s.IsEqual(vetoing), s.IsEqual(approving)
			w1, w2 := s.IsEqual(other), s.IsEqual(plainDifferent)
			if (e1 != nil) != (w1 != nil) || (e2 != nil) != (w2 != nil) || armedCalls != 0 {
				c.Violatef("equality-closure-of-the-argument-used", desc(), "receiver without an equality closure: IsEqual(equal comparand with vetoing closure)=%v (plain equal comparand: %v), IsEqual(different comparand with approving closure)=%v (plain: %v), the arguments' closures were called %d times", e1, w1, e2, w2, armedCalls)
				return
			}
			c.Count("argument-with-own-equality-closure")
		}
		u, uerr := s.Unmarshal()
		if installed.um {
			if uerr != umErr || len(u) != 2 || u[0] != "CUSTOM" {
				c.Violatef("unmarshal-closure-ignored", desc(), "Unmarshal()=%v,%v; closure returns [CUSTOM 1] and error %v", u, uerr, umErr)
				return
			}
		} else {
			tu, _ := twin.Unmarshal()
			if d := unmarshalEq(u, tu, "u"); d != "" {
				c.Violatef("unmarshal-not-restored", desc(), "Unmarshal differs from the built-in at %s", d)
				return
			}
		}
		if installed.ma {
			before := s.Len()
			if maNil {
				merr := s.Marshal("AND", "x")
				s.SetErr(nil)
				if merr != nil || s.Len() != before {
					c.Violatef("marshal-closure-ignored", desc(), "Marshal()=%v Len %d->%d; the closure returns nil (and stores nothing)", merr, before, s.Len())
					return
				}
			} else if merr := s.Marshal("AND", "x"); merr != mErr || s.Len() != before {
				c.Violatef("marshal-closure-ignored", desc(), "Marshal()=%v Len %d->%d; closure returns its own error and stores nothing", merr, before, s.Len())
				return
			}
		} else if !roNow {
			before := s.Len()
			merr := s.Marshal("AND", "x")
			terr := twin.Marshal("AND", "x")
			other.Marshal("AND", "x")
			if (merr != nil) != (terr != nil) || s.Len() != before+1 {
				c.Violatef("marshal-not-restored", desc(), "Marshal()=%v Len %d->%d; built-in gives %v and one more element", merr, before, s.Len(), terr)
				return
			}
		}
		if roNow {
			s.SetReadOnly(false)
			twin.SetReadOnly(false)
		}
	}
	c.Count("closure-sequences.stack")
	c.NontrivialStr(kind + "|" + strings.Join(log, ";"))
	if c.WantSample() && c.Idx%257 == 9 {
		c.Sample(desc())
	}
}

func c14CondClosures(c *core.Ctx) {
	r := c.Rng
	incomplete := r.Chance(1, 4)
	missing := r.Intn(4)
	cparen, cnopad, cencap := r.Chance(1, 3), r.Chance(1, 4), r.Chance(1, 4)
	build := func() stackage.Condition {
		var cd stackage.Condition
		if incomplete {
			// keyword and operator only (or keyword and expression only, or nothing at all): the built-in rule rejects
			// it, an accepting validity closure decides otherwise - and whatever it decides, no call may panic
			cd.Init()
			switch missing {
			case 0:
				cd.SetKeyword("kw").SetOperator(stackage.Eq)
			case 1:
				cd.SetKeyword("kw").SetExpression("val")
			case 2:
				cd.SetOperator(stackage.Eq).SetExpression("val")
			}
		} else {
			cd = stackage.Cond("kw", stackage.Eq, "val")
		}
		if cparen {
			cd.SetParen(true)
		}
		if cnopad {
			cd.SetNoPadding(true)
		}
		if cencap {
			cd.SetEncap(`"`)
		}
		return cd
	}
	cd, twin, other := build(), build(), build()
	var log []string
	desc := func() map[string]any { return map[string]any{"receiver": "Condition", "calls": log} }
	vErr := errors.New("cond validity says no")
	eErr := errors.New("cond equality says no")
	evErr := errors.New("evaluator error")
	var inst struct{ vp, vpReject, pp, eq, um, ev bool }
	for step, n := 0, r.Range(2, 6); step < n; step++ {
		switch r.Intn(10) {
		case 0:
			rej := r.Bool()
			cd.SetValidityPolicy(func(...any) error {
				if rej {
					return vErr
				}
				return nil
			})
			inst.vp, inst.vpReject = true, rej
			log = append(log, fmt.Sprintf("SetValidityPolicy(reject=%v)", rej))
		case 1:
			cd.SetValidityPolicy(nil)
			inst.vp = false
			log = append(log, "SetValidityPolicy(nil)")
		case 2:
			cd.SetPresentationPolicy(func(...any) string { return "CPRESENTED" })
			inst.pp = true
			log = append(log, "SetPresentationPolicy(f)")
		case 3:
			cd.SetPresentationPolicy(nil)
			inst.pp = false
			log = append(log, "SetPresentationPolicy(nil)")
		case 4:
			cd.SetEqualityPolicy(func(a, b any) error { return eErr })
			inst.eq = true
			log = append(log, "SetEqualityPolicy(f)")
		case 5:
			cd.SetEqualityPolicy()
			inst.eq = false
			log = append(log, "SetEqualityPolicy()")
		case 6:
			cd.SetUnmarshaler(func(...any) ([]any, error) { return []any{"CC"}, nil })
			inst.um = true
			log = append(log, "SetUnmarshaler(f)")
		case 7:
			cd.SetUnmarshaler()
			inst.um = false
			log = append(log, "SetUnmarshaler()")
		case 8:
			cd.SetEvaluator(func(x ...any) (any, error) { return len(x), evErr })
			inst.ev = true
			log = append(log, "SetEvaluator(f)")
		case 9:
			cd.SetEvaluator(nil)
			inst.ev = false
			log = append(log, "SetEvaluator(nil)")
		}
		c.Count("closure-steps.condition")
		// what decides validity right now: the closure if installed, else the built-in rule (an incomplete Condition fails it)
		validNow := !incomplete
		if inst.vp {
			validNow = !inst.vpReject
		}
		verr := cd.Valid()
		if inst.vp {
			if inst.vpReject && verr != vErr {
				c.Violatef("cond:validity-closure-ignored", desc(), "Valid()=%v, the closure returns its own error", verr)
				return
			}
			if !inst.vpReject && verr != nil {
				c.Violatef("cond:validity-closure-ignored", desc(), "Valid()=%v, the closure accepts", verr)
				return
			}
		} else if (verr != nil) != (twin.Valid() != nil) {
			c.Violatef("cond:validity-not-restored", desc(), "Valid()=%v, built-in gives %v", verr, twin.Valid())
			return
		}
		str := cd.String()
		switch {
		case !validNow:
			if str != "" {
				c.Violatef("cond:invalid-renders", desc(), "String()=%q although Valid() fails", str)
				return
			}
		case incomplete && !inst.pp:
			// accepted by the closure although it has no expression: how that renders is not specified
		case inst.pp:
			if str != "CPRESENTED" {
				c.Violatef("cond:presentation-closure-ignored", desc(), "String()=%q", str)
				return
			}
		default:
			if str != twin.String() {
				c.Violatef("cond:presentation-not-restored", desc(), "String()=%q, built-in %q", str, twin.String())
				return
			}
		}
		eerr := cd.IsEqual(other)
		if inst.eq {
			if eerr != eErr {
				c.Violatef("cond:equality-closure-ignored", desc(), "IsEqual()=%v", eerr)
				return
			}
			if e1, e2 := cd.IsEqual(cd), cd.IsEqual(ACond(cd)); e1 != eErr || e2 != eErr {
				c.Violatef("cond:equality-closure-ignored:self", desc(), "IsEqual(self)=%v IsEqual(alias of self)=%v", e1, e2)
				return
			}
		} else if eerr != nil {
			c.Violatef("cond:equality-not-restored", desc(), "IsEqual()=%v between equal conditions", eerr)
			return
		}
		u, _ := cd.Unmarshal()
		if inst.um {
			if len(u) != 1 || u[0] != "CC" {
				c.Violatef("cond:unmarshal-closure-ignored", desc(), "Unmarshal()=%v", u)
				return
			}
		} else if tu, _ := twin.Unmarshal(); unmarshalEq(u, tu, "u") != "" {
			c.Violatef("cond:unmarshal-not-restored", desc(), "Unmarshal()=%v", u)
			return
		}
		ev, everr := cd.Evaluate(1, 2, 3)
		if inst.ev {
			if ev != 3 || everr != evErr {
				c.Violatef("cond:evaluator-ignored", desc(), "Evaluate()=%v,%v", ev, everr)
				return
			}
		} else if ev != nil || everr == nil {
			c.Violatef("cond:evaluator-not-removed", desc(), "Evaluate()=%v,%v without an evaluator", ev, everr)
			return
		}
	}
	c.Count("closure-sequences.condition")
	c.NontrivialStr("cond|" + strings.Join(log, ";"))
}

// c14Args: "returns that closure's result" - and the closure can only give the caller's answer if it is asked the caller's
// question. A marshal closure is handed the arguments as the caller spelled them (one slice is ONE argument); an equality
// closure is handed the very comparand the caller passed (an alias stays an alias, a pointer a pointer).
func c14Args(c *core.Ctx) {
	r := c.Rng
	mErr, eErr := errors.New("marshal closure"), errors.New("equality closure")
	var got []any
	called := 0
	s := NewStack(Kinds[r.Intn(5)], 0).Push("e")
	s.SetMarshaler(func(in ...any) error { called++; got = in; return mErr })
	row := []any{"AND", "a", "b"}
	type call struct {
		name string
		args []any
	}
	for _, k := range []call{{"Marshal(one slice of three)", []any{row}}, {"Marshal(one empty slice)", []any{[]any{}}}, {"Marshal(one slice holding one empty slice)", []any{[]any{[]any{}}}},
		{"Marshal(label, value)", []any{"AND", "x"}}, {"Marshal(one string)", []any{"x"}}, {"Marshal(slice, slice)", []any{row, row}}} {
		called, got = 0, nil
		var err error
		if p, msg, site := Guard(func() { err = s.Marshal(k.args...) }); p {
			c.Violatef("panic:"+site+":closure-arguments", map[string]any{"call": k.name}, "%s with a marshal closure installed panicked: %s", k.name, msg)
			return
		}
		ok := called == 1 && err == mErr && len(got) == len(k.args)
		for i := 0; ok && i < len(got); i++ {
			ga, isSl := got[i].([]any)
			wa, wSl := k.args[i].([]any)
			if isSl != wSl || (isSl && len(ga) != len(wa)) || (!isSl && got[i] != k.args[i]) {
				ok = false
			}
		}
		if !ok {
			c.Violatef("marshal-closure-arguments", map[string]any{"call": k.name}, "%s: closure consulted %d time(s) with %d argument(s) %s, result %v; expected once, with the caller's %d argument(s) as given, and its error returned", k.name, called, len(got), showList(got), err, len(k.args))
			return
		}
	}
	var gotA, gotB any
	o := stackage.And().Push("o")
	ao := AStack(o)
	s.SetEqualityPolicy(func(a, b any) error { gotA, gotB = a, b; return eErr })
	for _, comparand := range []any{o, ao, &o, &ao} {
		gotA, gotB = nil, "unset"
		err := s.IsEqual(comparand)
		if err != eErr || reflect.TypeOf(gotB) != reflect.TypeOf(comparand) {
			c.Violatef("equality-closure-arguments", map[string]any{"comparand": fmt.Sprintf("%T", comparand)}, "Stack.IsEqual(%T) with an equality closure installed returned %v and handed the closure a %T as second argument", comparand, err, gotB)
			return
		}
		if _, isStack := gotA.(stackage.Stack); !isStack {
			c.Violatef("equality-closure-arguments", map[string]any{"comparand": fmt.Sprintf("%T", comparand)}, "Stack.IsEqual handed the closure a %T as first argument", gotA)
			return
		}
	}
	cd := stackage.Cond("k", stackage.Eq, "v")
	oc := stackage.Cond("k", stackage.Eq, "v")
	aoc := ACond(oc)
	cd.SetEqualityPolicy(func(a, b any) error { gotA, gotB = a, b; return eErr })
	for _, comparand := range []any{oc, aoc, &oc, &aoc} {
		gotA, gotB = nil, "unset"
		err := cd.IsEqual(comparand)
		if err != eErr || reflect.TypeOf(gotB) != reflect.TypeOf(comparand) {
			c.Violatef("cond:equality-closure-arguments", map[string]any{"comparand": fmt.Sprintf("%T", comparand)}, "Condition.IsEqual(%T) with an equality closure installed returned %v and handed the closure a %T as second argument", comparand, err, gotB)
			return
		}
	}
	c.Count("closure-argument-checks")
}

func c14Run(c *core.Ctx, idx int) {
	p, _ := c14Tier(c.Tier)
	if idx%200 == 100 {
		c14Args(c)
		return
	}
	if idx < p {
		c14Push(c)
	} else {
		c14Closures(c)
	}
}

func init() {
	core.Register(&core.Monitor{
		ID: "C14",
		Cases: func(tier string) int {
			a, b := c14Tier(tier)
			return a + b
		},
		Run: c14Run,
		Rule: "push policies: recording closures defined by a random accept/reject predicate (value id modulo m in a random set; nil accepted or not) on Stacks of every kind with capacity {none,1,2,3,4,6}; 1..5 batches of 1..6 unique values (occasionally nil). " +
			"After each batch the closure's call log must equal the offered values in order up to and including the first rejected one, restricted to calls made while room remained; content == accepted prefix (list model); Err() is the very error the closure returned; removing the policy restores plain appends. " +
			"other closures: random install/remove sequences (2..6 steps) of validity, presentation, equality, unmarshal, marshal closures on Stacks of every kind and validity, presentation, equality, unmarshal, evaluator closures on Conditions; after every step Valid/String/IsEqual/Unmarshal/Marshal/Evaluate are compared with the closure's own result or, when removed, with a twin that never had a closure; BASIC must refuse a presentation policy, record an error and render ''. " +
			"non-trivial = push history with a rejection strictly inside a batch AND a capacity clip (push part) / every closure sequence; distinct = literal history.",
		Assumptions: []string{"no-nesting is off and values are ints/nil under a push policy (the documentation exempts policy-controlled pushes from the no-nesting filter)"},
		Floors: func(string) map[string]int64 {
			return map[string]int64{"push-batches": 20000, "closure-argument-checks": 250, "cases.with-bystander-goroutines": 3000, "rejections": 3000, "histories.mid-batch-rejection-and-capacity-clip": 100, "closure-steps.stack": 5000, "closure-steps.condition": 2000, "basic-refusals": 50}
		},
	})
}
