package mon

import (
	"fmt"
	"log"
	"os"
	"reflect"
	"sort"
	"strings"
	"sync"
	"sync/atomic"

	stackage "github.com/JesseCoretta/go-stackage"
	"verifharness/core"
)

// C11 — queries never modify anything and may run concurrently.

// judged queries: the statement's list plus every Is.../Can... method
var c11Named = map[string]bool{"String": true, "Index": true, "Front": true, "Back": true, "Traverse": true, "Len": true, "Cap": true,
	"Avail": true, "Kind": true, "Valid": true, "IsEqual": true, "Unmarshal": true, "Less": true}

// the remaining getters: not named in the statement, but inside its quantifier ("every exported non-mutating method,
// enumerated by reflection against a declared mutator list") and its title ("queries never modify anything"), so they
// are judged as well. Evaluate hands the expression to a user closure and is run without one installed.
var c11Getters = map[string]bool{"ID": true, "Category": true, "Delimiter": true, "Err": true, "Auxiliary": true, "LogLevels": true, "Logger": true,
	"Addr": true, "CapReached": true, "Keyword": true, "Operator": true, "Expression": true, "Evaluate": true}

var c11Unjudged = map[string]bool{}

var c11Mutators = map[string]bool{
	"Push": true, "Pop": true, "Insert": true, "Remove": true, "Replace": true, "Swap": true, "Reverse": true, "Reset": true, "Free": true, "Defrag": true, "Reveal": true,
	"Transfer": true, "Marshal": true, "Init": true,
	"SetParen": true, "Paren": true, "SetFold": true, "Fold": true, "SetNegativeIndices": true, "NegativeIndices": true, "SetForwardIndices": true, "ForwardIndices": true,
	"SetDelimiter": true, "SetEncap": true, "Encap": true, "SetID": true, "SetCategory": true, "SetLeadOnce": true, "LeadOnce": true, "SetNoPadding": true, "NoPadding": true,
	"SetNoNesting": true, "NoNesting": true, "SetReadOnly": true, "ReadOnly": true, "SetSymbol": true, "Symbol": true, "SetMutex": true, "Mutex": true,
	"SetLogLevel": true, "UnsetLogLevel": true, "SetLogger": true, "SetLessFunc": true, "SetAuxiliary": true, "SetFIFO": true, "SetErr": true,
	"SetEqualityPolicy": true, "SetUnmarshaler": true, "SetMarshaler": true, "SetPushPolicy": true, "SetPresentationPolicy": true, "SetValidityPolicy": true,
	"SetKeyword": true, "SetOperator": true, "SetExpression": true, "SetEvaluator": true,
}

func c11IsQuery(name string) bool {
	return c11Named[name] || c11Getters[name] || strings.HasPrefix(name, "Is") || strings.HasPrefix(name, "Can")
}

var c11Gen = TreeGen{MaxDepth: 3, MaxWidth: 4, MinWidth: 1, NilLeaves: 8, Conds: 22, CondStackExpr: 50, CondCondExpr: 5, Aliases: 20,
	IdxOpts: true, Present: true, StackProb: 45, Mutex: 30}

var (
	c11Once   sync.Once
	c11SCalls []CallSpec
	c11CCalls []CallSpec
)

func c11Enum() {
	p := &Pools{Any: []any{"x", nil, stackage.Or().Push("p"), stackage.Cond("k", stackage.Eq, "v"), 42}, Ints: []int{0, -1, 1, 2, 7}, Strs: []string{"x"}}
	for _, cs := range EnumCalls(reflect.TypeOf(stackage.Stack{}), p) {
		if c11IsQuery(cs.Method) {
			c11SCalls = append(c11SCalls, cs)
		}
	}
	for _, cs := range EnumCalls(reflect.TypeOf(stackage.Condition{}), p) {
		if c11IsQuery(cs.Method) {
			c11CCalls = append(c11CCalls, cs)
		}
	}
}

func c11Tier(tier string) (seq, conc int) {
	if tier == "thorough" {
		return 60000, 800
	}
	return 3000, 120
}

// deepEq compares two query answers.
func deepEq(a, b any) bool {
	if a == nil || b == nil {
		return a == nil && b == nil
	}
	if ea, ok := a.(error); ok {
		eb, ok2 := b.(error)
		return ok2 && ea.Error() == eb.Error()
	}
	if sa, ok := a.([]any); ok {
		sb, ok2 := b.([]any)
		if !ok2 || len(sa) != len(sb) {
			return false
		}
		for i := range sa {
			if !deepEq(sa[i], sb[i]) {
				return false
			}
		}
		return true
	}
	if _, isS := stackage.VerifDump(a); isS {
		return sameInstance(a, b)
	}
	return SameValue(a, b)
}

func answersOf(rs []reflect.Value) []any {
	out := make([]any, len(rs))
	for i, r := range rs {
		if r.IsValid() && r.CanInterface() {
			out[i] = r.Interface()
			if r.Kind() == reflect.Interface && r.IsNil() {
				out[i] = nil
			}
		}
	}
	return out
}

func answersEq(a, b []any) bool {
	if len(a) != len(b) {
		return false
	}
	for i := range a {
		if !deepEq(a[i], b[i]) {
			return false
		}
	}
	return true
}

func deepCopyAny(v any) any {
	if s, ok := v.([]any); ok {
		if s == nil {
			return s
		}
		o := make([]any, len(s))
		for i := range s {
			o[i] = deepCopyAny(s[i])
		}
		return o
	}
	return v
}

func clobber(v any) {
	if s, ok := v.([]any); ok {
		for i := range s {
			clobber(s[i])
			s[i] = "CLOBBERED"
		}
	}
}

type c11Target struct {
	tree   *TNode
	root   stackage.Stack
	twin   stackage.Stack
	conds  []stackage.Condition // conditions found in the tree (receivers for Condition queries)
	stacks []stackage.Stack     // root and nested stacks
}

// freshTypeCounter mints element types no earlier case of this process has seen (a per-type cache filled lazily on a
// read path is only written the first time a type is met).
var freshTypeCounter atomic.Int64

func init() {
	extraLeaf["fresh-type"] = func(l *LeafDesc) any {
		n := int(freshTypeCounter.Add(1)) + 1000
		return reflect.New(reflect.ArrayOf(n, reflect.TypeOf(struct{}{}))).Elem().Interface()
	}
}

func c11Build(r *core.Rng, fresh ...int) *c11Target {
	t := &c11Target{tree: c11Gen.Gen(r)}
	if len(fresh) > 1 && fresh[1] > 0 {
		// a structure far deeper than the random generator produces: whatever a query keeps per nesting level (and
		// wherever it keeps it) is multiplied by the number of goroutines at work
		t.tree.Kids = append(t.tree.Kids, c11DeepChain(r, fresh[1]))
	}
	if len(fresh) > 0 {
		// many never-seen element types directly in the root and in the first nested stack
		for i := 0; i < fresh[0]; i++ {
			t.tree.Kids = append(t.tree.Kids, &TNode{T: "leaf", Leaf: &LeafDesc{Tag: "fresh-type"}})
		}
		for _, k := range t.tree.Kids {
			if k.T == "stack" {
				for i := 0; i < fresh[0]/2; i++ {
					k.Kids = append(k.Kids, &TNode{T: "leaf", Leaf: &LeafDesc{Tag: "fresh-type"}})
				}
				break
			}
		}
	}
	if r.Chance(1, 3) {
		t.tree.ReadOnly = true
	}
	// pure validity policies (accepting and rejecting) on some stacks: Valid/String/Traverse consult them
	t.tree.Walk(func(n *TNode) {
		if n.T == "stack" && r.Chance(1, 5) {
			n.VPol = 1 + r.Intn(2)
		}
		if n.T == "stack" && n.Kind != "BASIC" && r.Chance(1, 6) {
			n.PPol = true
		}
		if n.T == "stack" && r.Chance(1, 6) {
			n.Kids = append(n.Kids, &TNode{T: "leaf", Leaf: &LeafDesc{Tag: "fresh-type"}})
		}
	})
	if r.Chance(1, 3) && t.tree.Cap == 0 {
		// nested stacks that render as nothing (the paths a renderer takes when there is nothing to render)
		t.tree.Kids = append(t.tree.Kids, &TNode{T: "stack", Kind: []string{"AND", "OR", "LIST", "BASIC"}[r.Intn(4)]})
		if r.Bool() {
			t.tree.Kids = append(t.tree.Kids, &TNode{T: "stack", Kind: "NOT", Kids: []*TNode{{T: "stack", Kind: "AND"}}})
		}
	}
	// Conditions that were assembled incompletely by the constructor (which records a complaint) and completed afterwards
	t.tree.Walk(func(n *TNode) {
		if n.T == "cond" && r.Chance(1, 4) {
			n.ViaCond = true
		}
	})
	if r.Chance(1, 40) {
		// one nested stack of another magnitude (whatever a query keeps per element is kept thousands of times)
		bulk := &TNode{T: "stack", Kind: []string{"AND", "LIST", "BASIC"}[r.Intn(3)]}
		for i, n := 0, []int{4095, 4096, 4200}[r.Intn(3)]; i < n; i++ {
			bulk.Kids = append(bulk.Kids, &TNode{T: "leaf", Leaf: &LeafDesc{Tag: "int", I: int64(i)}})
		}
		if t.tree.Cap == 0 {
			t.tree.Kids = append(t.tree.Kids, bulk)
		}
	}
	t.root = t.tree.BuildStack()
	t.twin = t.tree.BuildStack()
	var walk func(s stackage.Stack, d int)
	walk = func(s stackage.Stack, d int) {
		t.stacks = append(t.stacks, s)
		for i := 0; i < s.Len() && d < 6; i++ {
			v, _ := s.Index(i)
			// harness-side type switches only: the library's converters must meet unseen element types for the
			// first time during the (possibly concurrent) queries, not while the harness walks the tree
			if ns, ok := knownStack(v); ok && ns.IsInit() {
				walk(ns, d+1)
			} else if cd, ok := knownCond(v); ok && cd.IsInit() {
				t.conds = append(t.conds, cd)
				if ns, ok := knownStack(cd.Expression()); ok && ns.IsInit() {
					walk(ns, d+1)
				}
			}
		}
	}
	walk(t.root, 0)
	// an encapsulation list with a zero-string entry in front of a real pair (accepted by SetEncap in one call)
	for _, s := range t.stacks {
		if !s.IsReadOnly() && r.Chance(1, 8) {
			s.SetEncap("", []string{"<", ">"})
		}
	}
	for _, cd := range t.conds {
		if !cd.IsReadOnly() && r.Chance(1, 8) {
			cd.SetEncap("", []string{"'"})
		}
	}
	// a past: some stacks have been popped from, re-pushed, had an element re-placed or inserted (whatever a mutator leaves
	// for the next query to tidy up is then still lying around)
	for _, s := range t.stacks {
		if s.IsReadOnly() || s.Len() == 0 || !r.Chance(1, 3) {
			continue
		}
		switch r.Intn(3) {
		case 0:
			if v, ok := s.Pop(); ok {
				s.Push(v)
			}
		case 1:
			i := r.Intn(s.Len())
			if v, ok := s.Index(i); ok {
				s.Replace(v, i)
			}
		default:
			if s.Cap() < 0 {
				s.Insert("inserted-later", r.Intn(s.Len()+1))
			}
		}
	}
	// identifiers of the computed kinds (the keywords _random / _addr make SetID derive the identifier) on some writable
	// nodes: whatever is derived must have been derived by the setter, not by the first reader
	for _, s := range t.stacks {
		if r.Chance(1, 4) && !s.IsReadOnly() {
			s.SetID([]string{"_random", "_RANDOM", "_addr", "plain-id"}[r.Intn(4)])
			s.SetCategory("cat")
		}
	}
	for _, cd := range t.conds {
		if r.Chance(1, 4) && !cd.IsReadOnly() {
			cd.SetID([]string{"_random", "_Random", "_addr", "plain-id"}[r.Intn(4)])
			cd.SetCategory("cat")
		}
	}
	return t
}

// withTwin replaces pool placeholders so IsEqual also sees an equal comparand.
func c11Args(cs CallSpec, twin any) []reflect.Value {
	if cs.Method != "IsEqual" || len(cs.Args) != 1 {
		return cs.Args
	}
	if cs.Args[0].IsValid() && !cs.Args[0].IsNil() {
		if n, ok := cs.Args[0].Interface().(int); ok && n == 42 {
			v := reflect.New(tAny).Elem()
			v.Set(reflect.ValueOf(twin))
			return []reflect.Value{v}
		}
	}
	return cs.Args
}

func c11Sequential(c *core.Ctx) {
	r := c.Rng
	t := c11Build(r)
	if r.Chance(1, 5) {
		// the package defaults change AFTER the structure was built (a default logger is activated or silenced, the
		// default level changes): existing instances are not the defaults' business, least of all on a read path
		if procLogging {
			stackage.SetDefaultStackLogger("none")
			stackage.SetDefaultConditionLogger("none")
			stackage.SetDefaultStackLogLevel(stackage.NoLogLevels)
			stackage.SetDefaultConditionLogLevel(stackage.NoLogLevels)
		} else {
			w := log.New(NullWriter{}, "later", 0)
			stackage.SetDefaultStackLogger(w)
			stackage.SetDefaultConditionLogger(w)
			stackage.SetDefaultStackLogLevel(stackage.AllLogLevels)
			stackage.SetDefaultConditionLogLevel(stackage.AllLogLevels)
		}
		defer RestoreProcDefaults()
		c.Count("trees.sequential.defaults-changed-after-build")
	}
	s0, _ := Take(t.root)
	desc := func(call string) map[string]any { return map[string]any{"tree": t.tree, "call": call} }
	// the documented mode for queries is lock-free: a query that acquires a stack lock writes lock bookkeeping on a
	// read path and can block (or deadlock against an opposite-direction comparison) behind a writer
	lockEvents := 0
	stackage.VerifSetHook(func(point string, id uintptr) {
		if point == "lock.want" {
			lockEvents++
		}
	})
	defer stackage.VerifSetHook(nil)
	run := func(recv reflect.Value, cs CallSpec, twin any, on string) bool {
		args := c11Args(cs, twin)
		spec := CallSpec{Method: cs.Method, Args: args, Desc: cs.Desc}
		lockEvents = 0
		r1, pan, msg, site := Invoke(recv, spec)
		if lockEvents > 0 {
			c.Violatef("query-takes-lock:"+on+"."+cs.Method, desc(cs.Desc), "query %s acquired a stack lock %d time(s): queries are documented to be lock-free", cs.Desc, lockEvents)
			return false
		}
		if pan {
			c.Violatef("panic:"+on+"."+cs.Method, desc(cs.Desc), "%s panicked (%s): %s", cs.Desc, site, msg)
			return false
		}
		a1 := answersOf(r1)
		keep := make([]any, len(a1))
		for i := range a1 {
			keep[i] = deepCopyAny(a1[i])
		}
		s1, _ := Take(t.root)
		if d := Diff(s0, s1, DiffOpts{Raw: true}); d != "" {
			c.Violatef("modified:"+on+"."+cs.Method, desc(cs.Desc), "query %s changed the structure: %s", cs.Desc, d)
			return false
		}
		for i := range a1 {
			clobber(a1[i])
		}
		r2, pan, msg, site := Invoke(recv, spec)
		if pan {
			c.Violatef("panic:"+on+"."+cs.Method, desc(cs.Desc), "%s panicked on repetition (%s): %s", cs.Desc, site, msg)
			return false
		}
		if !answersEq(keep, answersOf(r2)) {
			c.Violatef("unstable:"+on+"."+cs.Method, desc(cs.Desc), "query %s answered %s, then %s (after the first answer's containers were overwritten)", cs.Desc, core.JSON(fmt.Sprint(keep)), ResultDesc(r2))
			return false
		}
		s2, _ := Take(t.root)
		if d := Diff(s0, s2, DiffOpts{Raw: true}); d != "" {
			c.Violatef("modified:"+on+"."+cs.Method, desc(cs.Desc), "altering the answer of %s changed the structure: %s", cs.Desc, d)
			return false
		}
		c.Count("queries." + on)
		return true
	}
	// every Stack query on the root and on one nested stack, every Condition query on one condition
	targets := []stackage.Stack{t.root}
	if len(t.stacks) > 1 {
		targets = append(targets, t.stacks[1+r.Intn(len(t.stacks)-1)])
	}
	for ti, st := range targets {
		var twin any = t.twin
		if ti > 0 {
			twin = st
		}
		for _, cs := range c11SCalls {
			if !run(reflect.ValueOf(st), cs, twin, "Stack") {
				return
			}
		}
	}
	if len(t.conds) > 0 {
		cd := t.conds[r.Intn(len(t.conds))]
		var o stackage.Condition
		o.Init()
		o.SetKeyword(cd.Keyword()).SetOperator(cd.Operator()).SetExpression(cd.Expression())
		for _, cs := range c11CCalls {
			if !run(reflect.ValueOf(cd), cs, o, "Condition") {
				return
			}
		}
	}
	if c.Idx%4 == 0 {
		// "the same answer when repeated", for a comparison whose operands hold maps that differ in ONE value (nil
		// against a value) among several equal ones: the verdict is a function of the operands, not of the order in which
		// a map happens to be walked
		mkm := func(odd any) map[string]any {
			return map[string]any{"k1": 1, "k2": "two", "k3": odd, "k4": 4.5, "k5": true, "k6": "six", "k7": 7}
		}
		ma, mb := stackage.And().Push("lead", mkm(nil), t.root), stackage.And().Push("lead", mkm(5), t.root)
		ca, cb := stackage.Cond("k", stackage.Eq, mkm(nil)), stackage.Cond("k", stackage.Eq, mkm(5))
		first, firstC := ma.IsEqual(mb) == nil, ca.IsEqual(cb) == nil
		for i := 0; i < 40; i++ {
			if got, gotC := ma.IsEqual(mb) == nil, ca.IsEqual(cb) == nil; got != first || gotC != firstC {
				c.Violatef("unstable:IsEqual:maps", map[string]any{"tree": t.tree}, "IsEqual on unchanged operands holding 7-key maps that differ in one value (nil vs 5) answered equal=%v on call 1 and equal=%v on call %d", first, got, i+2)
				return
			}
		}
		if first || firstC {
			c.Count("map-pairs.reported-equal-consistently") // (a wrong verdict is C05's business; consistency is this property's)
		}
		c.Count("repeated-isequal-on-nil-vs-value-maps")
	}
	c.Count("trees.sequential")
	if t.tree.Depth() >= 2 && len(t.conds) > 0 {
		c.NontrivialStr(core.JSON(t.tree))
	}
	if c.WantSample() && c.Idx%151 == 3 {
		c.Sample(map[string]any{"tree": t.tree.Brief(), "stack_queries": len(c11SCalls), "condition_queries": len(c11CCalls)})
	}
}

// c11DeepChain: a chain of `depth` nested levels (every third one through a Condition) with a leaf at every level.
func c11DeepChain(r *core.Rng, depth int) *TNode {
	var cur *TNode = &TNode{T: "leaf", Leaf: &LeafDesc{Tag: "str", S: "bottom"}}
	for d := depth; d > 0; d-- {
		st := &TNode{T: "stack", Kind: []string{"AND", "OR", "NOT", "LIST"}[r.Intn(4)], Paren: r.Bool(),
			Kids: []*TNode{{T: "leaf", Leaf: &LeafDesc{Tag: "str", S: fmt.Sprintf("level%d", d)}}, cur}}
		if d%3 == 0 {
			cur = &TNode{T: "cond", Kw: fmt.Sprintf("kw%d", d), Op: &OpDesc{Code: 1 + r.Intn(6)}, Expr: st}
		} else {
			cur = st
		}
	}
	return cur
}

func c11Concurrent(c *core.Ctx) {
	r := c.Rng
	deep := 0
	if c.Idx%3 != 1 {
		deep = r.Range(14, 40)
	}
	t := c11Build(r, 16, deep)
	s0, _ := Take(t.root)
	type q struct {
		recv reflect.Value
		spec CallSpec
		want []any
	}
	// cold start on every other tree: the parallel phase comes FIRST (so that anything computed lazily on first use
	// is computed concurrently), the isolated answers are taken afterwards
	cold := c.Idx%2 == 0
	var qs []q
	add := func(recv reflect.Value, calls []CallSpec, twin any) {
		for _, cs := range calls {
			spec := CallSpec{Method: cs.Method, Args: c11Args(cs, twin), Desc: cs.Desc}
			if cold {
				qs = append(qs, q{recv, spec, nil})
				continue
			}
			res, pan, _, _ := Invoke(recv, spec)
			if pan {
				continue
			}
			qs = append(qs, q{recv, spec, answersOf(res)})
		}
	}
	add(reflect.ValueOf(t.root), c11SCalls, t.twin)
	if len(t.stacks) > 1 {
		st := t.stacks[1+r.Intn(len(t.stacks)-1)]
		add(reflect.ValueOf(st), c11SCalls, st)
	}
	if len(t.conds) > 0 {
		cd := t.conds[r.Intn(len(t.conds))]
		add(reflect.ValueOf(cd), c11CCalls, cd)
	}
	workers := 8 + r.Intn(9)
	rounds := 12
	var wg sync.WaitGroup
	var mu sync.Mutex
	var bad []string
	type obs struct {
		tag  int
		desc string
		ans  []any
	}
	var got []obs
	start := make(chan struct{})
	for w := 0; w < workers; w++ {
		seed := r.U64()
		wg.Add(1)
		go func() {
			defer wg.Done()
			wr := core.NewRng(seed)
			<-start
			for n := 0; n < rounds*len(qs)/4; n++ {
				k := qs[wr.Intn(len(qs))]
				res, pan, msg, _ := Invoke(k.recv, k.spec)
				if pan {
					mu.Lock()
					bad = append(bad, k.spec.Desc+" panicked: "+msg)
					mu.Unlock()
					return
				}
				if cold {
					if n < 40 {
						mu.Lock()
						got = append(got, obs{wr.Intn(1 << 30), k.spec.Desc, answersOf(res)})
						mu.Unlock()
					}
					continue
				}
				if !answersEq(k.want, answersOf(res)) {
					mu.Lock()
					bad = append(bad, fmt.Sprintf("%s answered %s concurrently, %v in isolation", k.spec.Desc, ResultDesc(res), k.want))
					mu.Unlock()
					return
				}
			}
		}()
	}
	close(start)
	wg.Wait()
	c.Add("queries.concurrent", int64(workers*rounds*len(qs)/4))
	c.Count("trees.concurrent")
	if deep > 0 && len(bad) == 0 {
		// a storm of the recursive queries on the root: every goroutine is inside the same deep recursion at once
		c.Count("trees.concurrent.deep-chain")
		// (a structure of its own: the random root may carry a presentation or validity policy that cuts the rendering short)
		stormRoot := stackage.And().Push("storm", c11DeepChain(r, deep).Build(), t.root)
		if r.Bool() {
			stormRoot.SetReadOnly(true)
		}
		wantStr, wantValid := stormRoot.String(), stormRoot.Valid() == nil
		wantU, _ := stormRoot.Unmarshal()
		wantShape := fmt.Sprintf("%v", shapeOf(wantU))
		var swg sync.WaitGroup
		go2 := make(chan struct{})
		for w := 0; w < workers; w++ {
			swg.Add(1)
			go func() {
				defer swg.Done()
				<-go2
				for n := 0; n < 80; n++ {
					gs, gv, gu := wantStr, wantValid, wantU
					if p, msg, _ := Guard(func() {
						// mostly the one query, back to back (what matters is how many goroutines are deep inside the
						// same recursion at the same instant); the other two every tenth round
						gs = stormRoot.String()
						if n%10 == 9 {
							gv = stormRoot.Valid() == nil
							gu, _ = stormRoot.Unmarshal()
						}
					}); p {
						mu.Lock()
						bad = append(bad, "deep recursive query panicked: "+msg)
						mu.Unlock()
						return
					}
					if gs != wantStr || gv != wantValid || fmt.Sprintf("%v", shapeOf(gu)) != wantShape {
						mu.Lock()
						bad = append(bad, fmt.Sprintf("on a %d-level chain, %d goroutines: String()=%q (isolated %q), Valid ok=%v (isolated %v), Unmarshal shape equal=%v", deep, workers, gs, wantStr, gv, wantValid, fmt.Sprintf("%v", shapeOf(gu)) == wantShape))
						mu.Unlock()
						return
					}
				}
			}()
		}
		close(go2)
		swg.Wait()
		if len(bad) == 0 {
			// the same for IsEqual: two structures holding pointers to large records that differ in their last entry,
			// compared by all goroutines at the same instant - each must be told what it is told in isolation
			recA, recB := make([]int, 12000), make([]int, 12000)
			for i := range recA {
				recA[i], recB[i] = i, i
			}
			recB[len(recB)-1] = -1
			type bigRec struct {
				Name string
				Data []int
			}
			pa, pb, pa2 := &bigRec{"r", recA}, &bigRec{"r", recB}, &bigRec{"r", append([]int{}, recA...)}
			ea, eb, ea2 := stackage.And().Push("lead", pa, stormRoot), stackage.And().Push("lead", pb, stormRoot), stackage.And().Push("lead", pa2, stormRoot)
			wantDiff, wantSame := ea.IsEqual(eb) != nil, ea.IsEqual(ea2) == nil
			var ewg sync.WaitGroup
			go3 := make(chan struct{})
			for w := 0; w < workers; w++ {
				ewg.Add(1)
				go func() {
					defer ewg.Done()
					<-go3
					for n := 0; n < 6; n++ {
						gd, gs := ea.IsEqual(eb) != nil, ea.IsEqual(ea2) == nil
						if gd != wantDiff || gs != wantSame {
							mu.Lock()
							bad = append(bad, fmt.Sprintf("IsEqual on structures holding pointers to 12000-entry records, %d goroutines at once: differing pair reported different=%v (isolated %v), equal pair reported equal=%v (isolated %v)", workers, gd, wantDiff, gs, wantSame))
							mu.Unlock()
							return
						}
					}
				}()
			}
			close(go3)
			ewg.Wait()
			c.Add("queries.concurrent", int64(workers*12))
		}
		if c.Verbose {
			fmt.Printf("deep chain of %d levels, %d goroutines, isolated String() has %d bytes, mismatches reported: %d\n", deep, workers, len(wantStr), len(bad))
		}
		c.Add("queries.concurrent", int64(workers*96))
	}
	if cold {
		c.Count("trees.concurrent.cold-start")
		iso := map[string][]any{}
		for _, k := range qs {
			if res, pan, _, _ := Invoke(k.recv, k.spec); !pan {
				if _, dup := iso[k.spec.Desc]; !dup {
					iso[k.spec.Desc] = answersOf(res)
				}
			}
		}
		for _, o := range got {
			// several receivers share call descriptions; only unambiguous ones are compared
			if want, ok := iso[o.desc]; ok && len(qs) > 0 && !answersEq(want, o.ans) && c11Unique(qs2descs(len(qs), func(i int) string { return qs[i].spec.Desc }), o.desc) {
				bad = append(bad, fmt.Sprintf("%s answered %v concurrently (cold start), %v in isolation", o.desc, o.ans, want))
				break
			}
		}
	}
	if len(bad) > 0 {
		c.Violatef("concurrent-answer", map[string]any{"tree": t.tree}, "%s", bad[0])
		return
	}
	s1, _ := Take(t.root)
	if d := Diff(s0, s1, DiffOpts{Raw: true}); d != "" {
		c.Violatef("modified:concurrent", map[string]any{"tree": t.tree}, "concurrent queries changed the structure: %s", d)
		return
	}
	c.NontrivialStr("conc|" + core.JSON(t.tree))
}

func qs2descs(n int, f func(int) string) []string {
	out := make([]string, n)
	for i := range out {
		out[i] = f(i)
	}
	return out
}

func c11Unique(all []string, d string) bool {
	n := 0
	for _, x := range all {
		if x == d {
			n++
		}
	}
	return n == 1
}

func c11Run(c *core.Ctx, idx int) {
	c11Once.Do(c11Enum)
	seq, conc := c11Tier(c.Tier)
	idx = spread(idx, seq+conc) // (the concurrent trees would otherwise all land in the last child)
	if idx < seq {
		c11Sequential(c)
	} else {
		c11Concurrent(c)
	}
}

func c11Setup(c *core.Ctx) {
	c11Once.Do(c11Enum)
	// every exported method must be classified; a new one makes the run inconclusive
	for _, t := range []reflect.Type{reflect.TypeOf(&stackage.Stack{}), reflect.TypeOf(&stackage.Condition{})} {
		for _, n := range MethodNames(t) {
			if !c11IsQuery(n) && !c11Unjudged[n] && !c11Mutators[n] {
				c.Inconclusive("method " + t.Elem().Name() + "." + n + " is neither a declared mutator nor a query: classify it in C11")
			}
		}
	}
	var qs []string
	seen := map[string]bool{}
	for _, cs := range append(append([]CallSpec{}, c11SCalls...), c11CCalls...) {
		if !seen[cs.Method] {
			seen[cs.Method] = true
			qs = append(qs, cs.Method)
		}
	}
	sort.Strings(qs)
	c.Notes["judged_queries"] = strings.Join(qs, ",")
}

// c11Teardown: the child is the -race binary; every report in its own log is a violation.
func c11Teardown(c *core.Ctx) {
	prefix := os.Getenv("VCHECK_RACE_LOG")
	if prefix == "" {
		if !c.Verbose {
			c.Inconclusive("C11 child is not running under the race detector")
		}
		return
	}
	reps := core.ParseRaceLogs(prefix) // the prefix is private to this child; the runtime appends ".<pid>"
	for _, rp := range reps {
		c.Violatef("race:"+raceEntryPair(rp), map[string]any{"report": rp.Raw}, "data race between concurrent queries:\n%s", rp.Raw)
	}
	c.Add("race-reports", int64(len(reps)))
}

// raceEntryPair names the outermost go-stackage entry points of both accesses (dedup key).
func raceEntryPair(rp core.RaceReport) string {
	entry := func(fr []string) string {
		out := "?"
		for _, f := range fr {
			if i := strings.Index(f, "go-stackage."); i >= 0 {
				out = f[i+len("go-stackage."):]
			}
		}
		return out
	}
	a, b := entry(rp.A.Frames), entry(rp.B.Frames)
	if a > b {
		a, b = b, a
	}
	return a + "|" + b
}

func init() {
	core.Register(&core.Monitor{
		ID: "C11",
		Cases: func(tier string) int {
			a, b := c11Tier(tier)
			return a + b
		},
		Run:      c11Run,
		Setup:    c11Setup,
		Teardown: c11Teardown,
		Race:     true,
		Rule: "sequential: random trees (depth <= 3; Conditions with Stack/Condition expressions, aliases, nil slots, every presentation/index option, mutex on 30% of the stacks, pure accepting/rejecting validity policies on a fifth, pure presentation policies on a sixth, read-only on a third of the roots); every judged query " +
			"(the statement's list plus every Is*/Can* method, enumerated by reflection, each with argument variants) is issued on the root, on one nested Stack and on one Condition: answer recorded, recursive VerifDump snapshot compared, " +
			"every container in the answer overwritten, query repeated: same answer, snapshot still identical; the lock-point hook must see no lock acquisition during a query. concurrent (whole run under the Go race detector): answers of the full query list computed in isolation, then 8..16 goroutines issue random queries " +
			"against the one structure; every answer must equal the isolated one, the snapshot must be unchanged and the race log must be empty; every other tree is a cold start (parallel phase first, isolated answers afterwards) and every tree carries element types never seen before in the process, so that lazily filled caches are filled concurrently. non-trivial = tree of depth >= 2 containing a Condition; distinct = tree description.",
		Assumptions: []string{
			"methods are classified by name (declared mutators / unjudged getters / queries); an exported method in none of the lists makes the run inconclusive",
			"getters the statement does not list (ID, Category, Delimiter, Err, Auxiliary, LogLevels, Logger, Addr, Keyword, Operator, Expression, Evaluate) are not judged",
			"the race detector only reports races that happen in the run; zero reports is evidence, not proof",
		},
		Floors: func(string) map[string]int64 {
			return map[string]int64{"queries.Stack": 50000, "queries.Condition": 5000, "trees.concurrent": 30, "queries.concurrent": 50000}
		},
	})
}

// shapeOf reduces an Unmarshal result to nesting structure and leaf counts (values themselves may be live instances).
func shapeOf(v any) any {
	if sl, ok := v.([]any); ok {
		out := make([]any, len(sl))
		for i := range sl {
			out[i] = shapeOf(sl[i])
		}
		return out
	}
	if s, ok := v.(string); ok {
		return s
	}
	return fmt.Sprintf("%T", v)
}
