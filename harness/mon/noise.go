package mon

import (
	"runtime"
	"sync"
	"sync/atomic"

	stackage "github.com/JesseCoretta/go-stackage"
)

// Bystander goroutines. In one case out of sixteen of every single-goroutine monitor, two goroutines of the harness keep
// asking read-only questions of values that are entirely THEIR OWN (one works on plain strings and native instances, the
// other on alias-typed instances and pointers to them) while the case runs. Nothing is shared with the case, so nothing
// about the case may depend on them: a library that keeps unsynchronised process-wide scratch state (a "last type seen"
// memo, a shared buffer) shows as a wrong answer in the case, or in the bystanders' own answers, which are checked against
// what the same questions returned before any case ran.
type noiseState struct {
	stop    chan struct{}
	wg      sync.WaitGroup
	bad     atomic.Value // string
	rounds  atomic.Int64
	plain   stackage.Stack
	aliasy  stackage.Stack
	wantP   string
	wantA   string
	wantPN  bool
	wantAN  bool
	started bool
}

var noise noiseState

// NoiseRounds reports how many question rounds the bystanders completed in this process.
func NoiseRounds() int64 { return noise.rounds.Load() }

func noiseBuild() {
	inner := stackage.Or().Push("n1", 2, 3.5)
	cd := stackage.Cond("nk", stackage.Ge, "nv")
	noise.plain = stackage.And().Push("alpha", "beta", 7, true, inner, cd, "gamma")
	ai := AStack(stackage.Or().Push("n1", 2, 3.5))
	ac := ACond(stackage.Cond("nk", stackage.Ge, "nv"))
	noise.aliasy = stackage.And().Push("alpha", "beta", 7, true, &ai, ac, "gamma")
	noise.wantP, noise.wantPN = noise.plain.String(), noise.plain.IsNesting()
	noise.wantA, noise.wantAN = noise.aliasy.String(), noise.aliasy.IsNesting()
}

func noiseStart() {
	if !noise.started {
		noiseBuild()
		noise.started = true
	}
	if noise.stop != nil {
		return // (still running: a case ended without its epilogue)
	}
	noise.stop = make(chan struct{})
	ask := func(s stackage.Stack, want string, wantN bool, who string) {
		defer noise.wg.Done()
		defer func() {
			if p := recover(); p != nil {
				noise.bad.Store(who + " bystander panicked on its own private values")
			}
		}()
		for i := 0; ; i++ {
			select {
			case <-noise.stop:
				return
			default:
			}
			if got := s.String(); got != want {
				noise.bad.Store(who + " bystander: String() of its own private stack changed from " + want + " to " + got)
			}
			if s.IsNesting() != wantN {
				noise.bad.Store(who + " bystander: IsNesting() of its own private stack changed")
			}
			if err := s.IsEqual(s); err != nil {
				noise.bad.Store(who + " bystander: its own private stack is no longer equal to itself: " + err.Error())
			}
			noise.rounds.Add(1)
			if i%4 == 3 {
				runtime.Gosched()
			}
		}
	}
	noise.wg.Add(2)
	go ask(noise.plain, noise.wantP, noise.wantPN, "plain-values")
	go ask(noise.aliasy, noise.wantA, noise.wantAN, "alias-values")
}

// noiseStopAndReport ends the bystanders and returns what they found ("" if nothing).
func noiseStopAndReport() string {
	close(noise.stop)
	noise.wg.Wait()
	noise.stop = nil
	if b, ok := noise.bad.Load().(string); ok && b != "" {
		noise.bad.Store("")
		return b
	}
	return ""
}
