package mon

import (
	"fmt"
	"os"
	"runtime"
	"sort"
	"strconv"
	"strings"
	"sync"
	"sync/atomic"
	"time"

	stackage "github.com/JesseCoretta/go-stackage"
	"github.com/anishathalye/porcupine"
	"verifharness/core"
)

// C10 — with mutual exclusion enabled, concurrent mutators act atomically.

// ---------------------------------------------------------------- operations and the sequential model

type c10Op struct {
	K    string `json:"k"`
	Vals []int  `json:"vals,omitempty"`
	I    int    `json:"i,omitempty"`
	J    int    `json:"j,omitempty"`
}

func (o c10Op) String() string {
	switch o.K {
	case "Push":
		return fmt.Sprintf("Push(%v)", o.Vals)
	case "Insert", "Replace":
		return fmt.Sprintf("%s(%d,%d)", o.K, o.Vals[0], o.I)
	case "Remove":
		return fmt.Sprintf("Remove(%d)", o.I)
	case "Swap":
		return fmt.Sprintf("Swap(%d,%d)", o.I, o.J)
	}
	return o.K + "()"
}

type c10Out struct {
	V   int // 0 = nil
	Ok  bool
	All string
}

func encodeList(items []any) string {
	var b strings.Builder
	for i, v := range items {
		if i > 0 {
			b.WriteByte(',')
		}
		switch tv := v.(type) {
		case int:
			b.WriteString(strconv.Itoa(tv))
		case nil:
			b.WriteString("nil")
		default:
			b.WriteString("?" + Show(v))
		}
	}
	return b.String()
}

func decodeList(s string) []any {
	if s == "" {
		return nil
	}
	parts := strings.Split(s, ",")
	out := make([]any, len(parts))
	for i, p := range parts {
		n, _ := strconv.Atoi(p)
		out[i] = n
	}
	return out
}

func asInt(v any) int {
	if n, ok := v.(int); ok {
		return n
	}
	return 0
}

// c10Apply executes an op on the real stack and returns its observable output.
func c10Apply(s stackage.Stack, o c10Op) c10Out {
	switch o.K {
	case "Push":
		vals := make([]any, len(o.Vals))
		for i, v := range o.Vals {
			vals[i] = v
		}
		s.Push(vals...)
	case "Pop":
		v, ok := s.Pop()
		return c10Out{V: asInt(v), Ok: ok}
	case "Insert":
		return c10Out{Ok: s.Insert(o.Vals[0], o.I)}
	case "Remove":
		v, ok := s.Remove(o.I)
		return c10Out{V: asInt(v), Ok: ok}
	case "Replace":
		return c10Out{Ok: s.Replace(o.Vals[0], o.I)}
	case "Swap":
		s.Swap(o.I, o.J)
	case "Reverse":
		s.Reverse()
	case "Reset":
		s.Reset()
	case "ReadAll":
		return c10Out{All: encodeList(contentOf(s))}
	}
	return c10Out{}
}

// c10Step is the sequential specification: the list model of C01.
// c10NegModel: the duel at hand runs on a stack with negative indices on (set only while its two sequential outcomes are
// computed; nothing runs concurrently then).
var c10NegModel bool

func c10Step(state string, fifo bool, capacity int, o c10Op) (c10Out, string) {
	m := &ListModel{Items: decodeList(state), Fifo: fifo, Cap: capacity, Neg: c10NegModel}
	var out c10Out
	switch o.K {
	case "Push":
		for _, v := range o.Vals {
			if v < 0 {
				break // refused by the rejecting push policy: the batch ends here
			}
			m.Push(v)
		}
	case "Pop":
		v, ok := m.Pop()
		out = c10Out{V: asInt(v), Ok: ok}
	case "Insert":
		out.Ok = m.Insert(o.Vals[0], o.I)
	case "Remove":
		if p, ok := m.Resolve(o.I); ok {
			out = c10Out{V: asInt(m.RemoveAt(p)), Ok: true}
		}
	case "Replace":
		out.Ok = m.Replace(o.Vals[0], o.I)
	case "Swap":
		m.Swap(o.I, o.J)
	case "Reverse":
		m.Reverse()
	case "Reset":
		m.Reset()
	case "ReadAll":
		out.All = encodeList(m.Items)
	}
	return out, encodeList(m.Items)
}

func c10Model(init string, fifo bool, capacity int) porcupine.Model {
	return porcupine.Model{
		Init: func() interface{} { return init },
		Step: func(st, in, out interface{}) (bool, interface{}) {
			want, next := c10Step(st.(string), fifo, capacity, in.(c10Op))
			return want == out.(c10Out), next
		},
		Equal:             func(a, b interface{}) bool { return a.(string) == b.(string) },
		DescribeOperation: func(in, out interface{}) string { return fmt.Sprintf("%s -> %+v", in.(c10Op), out.(c10Out)) },
		DescribeState:     func(s interface{}) string { return "[" + s.(string) + "]" },
	}
}

// ---------------------------------------------------------------- programs

type c10Prog struct {
	Init    int       `json:"init_len"`
	Fifo    bool      `json:"fifo"`
	Cap     int       `json:"cap"`
	Kind    string    `json:"kind"`
	Workers [][]c10Op `json:"workers"`
	Policy  bool      `json:"push_policy,omitempty"`
}

func (p c10Prog) String() string {
	var ws []string
	for i, w := range p.Workers {
		var os []string
		for _, o := range w {
			os = append(os, o.String())
		}
		ws = append(ws, fmt.Sprintf("w%d:%s", i, strings.Join(os, ";")))
	}
	return fmt.Sprintf("%s len=%d fifo=%v cap=%d policy=%v | %s", p.Kind, p.Init, p.Fifo, p.Cap, p.Policy, strings.Join(ws, " || "))
}

const c10Alphabet = 13

func c10Symbol(sym, L int, next func() int) c10Op {
	last := L - 1
	if last < 0 {
		last = 0
	}
	switch sym {
	case 0:
		return c10Op{K: "Push", Vals: []int{next()}}
	case 1:
		return c10Op{K: "Push", Vals: []int{next(), next()}}
	case 2:
		return c10Op{K: "Pop"}
	case 3:
		return c10Op{K: "Insert", Vals: []int{next()}, I: 0}
	case 4:
		return c10Op{K: "Insert", Vals: []int{next()}, I: L / 2}
	case 5:
		return c10Op{K: "Insert", Vals: []int{next()}, I: L}
	case 6:
		return c10Op{K: "Remove", I: 0}
	case 7:
		return c10Op{K: "Remove", I: last}
	case 8:
		return c10Op{K: "Replace", Vals: []int{next()}, I: 0}
	case 9:
		return c10Op{K: "Replace", Vals: []int{next()}, I: last}
	case 10:
		return c10Op{K: "Swap", I: 0, J: last}
	case 11:
		return c10Op{K: "Reverse"}
	case 13:
		// (sampled and stress programs only) a batch whose middle value a rejecting push policy refuses: negative values
		// are the ones refused, and they occur in no other op
		return c10Op{K: "Push", Vals: []int{next(), -next(), next()}}
	case 14:
		// (sampled and stress programs only) a batch well beyond any small-batch regime
		vs := make([]int, 9+next()%6)
		for i := range vs {
			vs[i] = next()
		}
		return c10Op{K: "Push", Vals: vs}
	}
	return c10Op{K: "Reset"}
}

const c10WideAlphabet = c10Alphabet + 2

// c10ProgSymbol draws from the wide alphabet; the refused-value batch needs the policy.
func c10ProgSymbol(r *core.Rng, policy bool, L int, next func() int) c10Op {
	sym := r.Intn(c10WideAlphabet)
	if sym == 13 && !policy {
		sym = 1
	}
	return c10Symbol(sym, L, next)
}

func (p c10Prog) build() (stackage.Stack, string) {
	s := NewStack(p.Kind, p.Cap)
	if p.Fifo {
		s.SetFIFO(true)
	}
	for i := 1; i <= p.Init; i++ {
		s.Push(i)
	}
	if p.Policy {
		// the policy-gated append path has its own capacity test; negative values (symbol 13) are refused
		s.SetPushPolicy(func(x ...any) error {
			if n, ok := x[0].(int); ok && n < 0 {
				return errPolicyRejects
			}
			return nil
		})
	}
	s.SetMutex()
	return s, encodeList(contentOf(s))
}

// ---------------------------------------------------------------- cooperative scheduler

type c10Worker struct {
	id       int
	ops      []c10Op
	resume   chan bool // false = abort
	parked   bool
	finished bool
	want     uintptr // lock the worker is waiting to acquire (0 = parked at an op start)
	cur      int     // index of the op being executed
}

type c10Event struct {
	w        *c10Worker
	finished bool
}

type c10Violation struct{ key, msg string }

type c10Exec struct {
	s        stackage.Stack
	workers  []*c10Worker
	cur      *c10Worker
	toCtl    chan c10Event
	owner    map[uintptr]*c10Worker
	clock    int64
	history  []porcupine.Operation
	viol     []c10Violation
	base     stackage.VerifSnapshot // snapshot at the last quiescent point / lock release
	inLock   bool                   // current block is between lock.held and lock.released
	stale    map[int]bool           // worker id -> content changed between its pre-lock block and its lock.held
	preSnap  map[int]string         // content each worker saw when it parked at lock.want
	capLimit int
	trace    []c10Choice
	// yieldAfterRelease adds "immediately after Unlock" to the switch points
	yieldAfterRelease bool
}

type c10Choice struct{ choice, n int }

type c10Abort struct{}

func (c10Abort) String() string { return "c10Abort" }

func (e *c10Exec) violate(key, f string, a ...any) {
	e.viol = append(e.viol, c10Violation{key, fmt.Sprintf(f, a...)})
}

func snapDiffers(a, b stackage.VerifSnapshot) string {
	if a.Slot0Cfg != b.Slot0Cfg {
		return "configuration slot"
	}
	if !sameContent(a.Slots, b.Slots) {
		return "content"
	}
	if a.Ldr != b.Ldr {
		return "lock bookkeeping (ldr)"
	}
	if d := CfgDiff(a, b, 0, "ldr"); d != "" {
		return "configuration: " + d
	}
	return ""
}

// hook runs inside the currently scheduled worker.
func (e *c10Exec) hook(point string, id uintptr) {
	w := e.cur
	if w == nil {
		return
	}
	now, _ := stackage.VerifDump(e.s)
	switch point {
	case "lock.want":
		if d := snapDiffers(e.base, now); d != "" {
			e.violate("unlocked-write:"+firstWord(d)+":"+w.ops[w.cur].K, "%s wrote %s before acquiring the lock", w.ops[w.cur], d)
		}
		e.base = now
		e.preSnap[w.id] = encodeList(now.Slots)
		w.want = id
		e.park(w)
		// resumed: the lock is free (the controller only enables workers whose lock is free)
		after, _ := stackage.VerifDump(e.s)
		if encodeList(after.Slots) != e.preSnap[w.id] {
			e.stale[w.id] = true
		}
		e.base = after
	case "lock.held":
		if e.owner[id] != nil && e.owner[id] != w {
			e.violate("lock-not-exclusive", "two workers hold the lock at once")
		}
		e.owner[id] = w
		w.want = 0
		if d := snapDiffers(e.base, now); d != "" {
			e.violate("unlocked-write:"+firstWord(d)+":"+w.ops[w.cur].K, "%s wrote %s between lock.want and lock.held", w.ops[w.cur], d)
		}
		e.inLock = true
	case "lock.released":
		delete(e.owner, id)
		e.inLock = false
		e.base = now
		// a switch point: whatever the operation still does after releasing the lock (post-unlock clean-up, success
		// flags computed from re-read state) may be overtaken by another worker's critical section
		if e.yieldAfterRelease {
			w.want = 0
			e.park(w)
			after, _ := stackage.VerifDump(e.s)
			e.base = after
		}
	}
}

func firstWord(s string) string {
	if i := strings.IndexAny(s, " :"); i > 0 {
		return s[:i]
	}
	return s
}

func (e *c10Exec) park(w *c10Worker) {
	w.parked = true
	e.toCtl <- c10Event{w: w}
	if !<-w.resume {
		panic(c10Abort{})
	}
	w.parked = false
}

func (e *c10Exec) tick() int64 { e.clock++; return e.clock }

func (e *c10Exec) workerMain(w *c10Worker) {
	defer func() {
		if r := recover(); r != nil {
			if _, ok := r.(c10Abort); ok {
				return // aborted after a deadlock verdict; never signals the controller again
			}
			panic(r)
		}
	}()
	if !<-w.resume {
		return
	}
	w.parked = false
	for i, op := range w.ops {
		// yield at op start (the controller may switch here); w.cur still names the op that just ran
		w.want = 0
		if i > 0 {
			e.park(w)
		}
		w.cur = i
		call := e.tick()
		var out c10Out
		pan, msg, site := Guard(func() { out = c10Apply(e.s, op) })
		ret := e.tick()
		if pan {
			if strings.Contains(msg, "c10Abort") {
				panic(c10Abort{})
			}
			key := "panic:" + op.K + ":" + site
			if e.stale[w.id] {
				key = "stale-check:" + op.K
			}
			e.violate(key, "%s panicked (%s): %s", op, site, msg)
			// a panic inside the critical section has released the lock through defer; make the bookkeeping agree
			for id, o := range e.owner {
				if o == w {
					delete(e.owner, id)
				}
			}
			e.inLock = false
		}
		e.history = append(e.history, porcupine.Operation{ClientId: w.id, Input: op, Call: call, Output: out, Return: ret})
		// post-op quiescence check happens in the controller
	}
	w.finished = true
	e.toCtl <- c10Event{w: w, finished: true}
}

// run executes the program under one schedule (prefix of choices, then always the first enabled worker).
func c10RunSchedule(p c10Prog, prefix []int) *c10Exec {
	s, _ := p.build()
	e := &c10Exec{yieldAfterRelease: true, s: s, toCtl: make(chan c10Event), owner: map[uintptr]*c10Worker{}, stale: map[int]bool{}, preSnap: map[int]string{}, capLimit: p.Cap}
	for i, ops := range p.Workers {
		e.workers = append(e.workers, &c10Worker{id: i, ops: ops, resume: make(chan bool)})
	}
	e.base, _ = stackage.VerifDump(s)
	stackage.VerifSetHook(e.hook)
	defer stackage.VerifSetHook(nil)
	for _, w := range e.workers {
		w.parked = true // parked before their first op
		go e.workerMain(w)
	}
	step := 0
	for {
		var enabled []*c10Worker
		unfinished := 0
		for _, w := range e.workers {
			if w.finished {
				continue
			}
			unfinished++
			if w.parked && (w.want == 0 || e.owner[w.want] == nil) {
				enabled = append(enabled, w)
			}
		}
		if unfinished == 0 {
			break
		}
		if len(enabled) == 0 {
			var who []string
			for _, w := range e.workers {
				if !w.finished {
					who = append(who, fmt.Sprintf("w%d at %s", w.id, w.ops[w.cur]))
				}
			}
			e.violate("deadlock", "no worker can proceed: %s", strings.Join(who, ", "))
			for _, w := range e.workers {
				if !w.finished && w.parked {
					w.resume <- false
				}
			}
			break
		}
		choice := 0
		if step < len(prefix) {
			choice = prefix[step]
			if choice >= len(enabled) {
				choice = len(enabled) - 1
			}
		}
		e.trace = append(e.trace, c10Choice{choice, len(enabled)})
		step++
		w := enabled[choice]
		e.cur = w
		w.resume <- true
		<-e.toCtl // w parked again or finished
		e.cur = nil
		// quiescent: nobody runs. Whatever changed since the last baseline changed outside a critical section.
		now, _ := stackage.VerifDump(e.s)
		if !e.inLock {
			if d := snapDiffers(e.base, now); d != "" {
				e.violate("unlocked-write:"+firstWord(d)+":"+w.ops[w.cur].K, "%s wrote %s outside the critical section", w.ops[w.cur], d)
			}
		}
		if !now.Slot0Cfg {
			key := "corrupt:cfg-slot-lost"
			if e.stale[w.id] {
				key = "stale-check:" + w.ops[w.cur].K
			}
			e.violate(key, "after %s the configuration record is no longer in slot 0 (it was handed out or removed as an element)", w.ops[w.cur])
		}
		if e.capLimit > 0 && len(now.Slots) > e.capLimit {
			e.violate("capacity-exceeded", "%d elements with capacity %d after %s", len(now.Slots), e.capLimit, w.ops[w.cur])
		}
		e.base = now
	}
	return e
}

// c10CheckHistory appends the final read and asks porcupine.
func c10CheckHistory(p c10Prog, e *c10Exec, init string) (key, msg string) {
	if len(e.viol) > 0 {
		return "", ""
	}
	var final c10Out
	if pan, m, _ := Guard(func() { final = c10Apply(e.s, c10Op{K: "ReadAll"}) }); pan {
		return "corrupt:final-read", "reading the final content panicked: " + m
	}
	t := e.clock + 1
	hist := append(append([]porcupine.Operation{}, e.history...), porcupine.Operation{ClientId: len(p.Workers), Input: c10Op{K: "ReadAll"}, Call: t, Output: final, Return: t + 1})
	// explorer histories are tiny (<= 10 operations): the check takes microseconds; the generous limit only guards
	// against a starved machine and is retried once before the run is called inconclusive
	res, _ := porcupine.CheckOperationsVerbose(c10Model(init, p.Fifo, p.Cap), hist, 60*time.Second)
	if res == porcupine.Unknown {
		res, _ = porcupine.CheckOperationsVerbose(c10Model(init, p.Fifo, p.Cap), hist, 300*time.Second)
	}
	switch res {
	case porcupine.Ok:
		return "", ""
	case porcupine.Unknown:
		return "unknown", "linearizability check timed out"
	}
	var kinds []string
	seen := map[string]bool{}
	stale := false
	for _, o := range e.history {
		k := o.Input.(c10Op).K
		if !seen[k] {
			seen[k] = true
			kinds = append(kinds, k)
		}
	}
	for range e.stale {
		stale = true
	}
	sort.Strings(kinds)
	var hs []string
	for _, o := range hist {
		hs = append(hs, fmt.Sprintf("w%d[%d,%d] %s -> %+v", o.ClientId, o.Call, o.Return, o.Input.(c10Op), o.Output.(c10Out)))
	}
	key = "illegal-history:" + strings.Join(kinds, "+")
	if stale {
		var sk []string
		for id := range e.stale {
			sk = append(sk, e.workers[id].ops[0].K)
		}
		sort.Strings(sk)
		key = "stale-check:" + sk[0]
	}
	return key, "history is not linearizable against the sequential list model:\n  " + strings.Join(hs, "\n  ")
}

// ---------------------------------------------------------------- case layout

func c10Tier(tier string) (pairs, sampled, stress int) {
	pairs = c10Alphabet * c10Alphabet * 4 * 2 * 3 // all 2-worker 1-op programs x init length x fifo x capacity mode
	if tier == "thorough" {
		return pairs, 60000, 40000
	}
	return pairs, 1500, 1500
}

func c10CapFor(mode, L int) int {
	switch mode {
	case 1:
		if L == 0 {
			return 1
		}
		return L
	case 2:
		return L + 1
	}
	return 0
}

func c10Explore(c *core.Ctx, p c10Prog, maxSchedules int) {
	_, init := p.build()
	var prefix []int
	execs := 0
	for execs < maxSchedules {
		e := c10RunSchedule(p, prefix)
		execs++
		c.Count("explorer.executions")
		c.Add("explorer.scheduling-decisions", int64(len(e.trace)))
		sched := make([]int, len(e.trace))
		for i, t := range e.trace {
			sched[i] = t.choice
		}
		desc := map[string]any{"program": p, "schedule": sched}
		for _, v := range e.viol {
			c.Violate(v.key, v.msg+" | program "+p.String()+fmt.Sprintf(" | schedule %v", sched), desc)
		}
		if len(e.viol) == 0 {
			if key, msg := c10CheckHistory(p, e, init); key == "unknown" {
				c.Inconclusive("a linearizability check timed out")
			} else if key != "" {
				c.Violate(key, msg+"\n  program "+p.String()+fmt.Sprintf(" | schedule %v", sched), desc)
			} else {
				c.Count("explorer.histories-linearizable")
			}
		}
		if len(e.viol) > 0 {
			return
		}
		// next schedule (depth-first, re-execution)
		i := len(e.trace) - 1
		for i >= 0 && e.trace[i].choice+1 >= e.trace[i].n {
			i--
		}
		if i < 0 {
			c.Count("explorer.programs-exhausted")
			break
		}
		prefix = prefix[:0]
		for j := 0; j < i; j++ {
			prefix = append(prefix, e.trace[j].choice)
		}
		prefix = append(prefix, e.trace[i].choice+1)
	}
	c.Count("explorer.programs")
	if execs >= 2 {
		c.NontrivialStr(p.String())
	}
	if c.WantSample() && execs >= 3 && c.Idx%409 == 1 {
		c.Sample(map[string]any{"program": p.String(), "interleavings_explored": execs})
	}
}

// spread is a fixed permutation of a tier's case numbers ((i*7919) mod n, 7919 prime and coprime to every n in use): the
// driver hands each child a contiguous range, and the expensive kinds of cases (stress, hammer, duels / concurrent trees)
// would otherwise all land in the last children.
func spread(idx, n int) int {
	if n%7919 == 0 {
		return idx
	}
	return int((int64(idx) * 7919) % int64(n))
}

func c10Run(c *core.Ctx, idx int) {
	pairs, sampled, stress := c10Tier(c.Tier)
	idx = spread(idx, pairs+sampled+stress+c10HammerCases(c.Tier)+c10DuelCases)
	r := c.Rng
	n := 100
	next := func() int { n++; return n }
	switch {
	case idx < pairs:
		k := idx
		a := k % c10Alphabet
		k /= c10Alphabet
		b := k % c10Alphabet
		k /= c10Alphabet
		L := k % 4
		k /= 4
		fifo := k%2 == 1
		k /= 2
		p := c10Prog{Init: L, Fifo: fifo, Cap: c10CapFor(k%3, L), Kind: Kinds[r.Intn(5)], Policy: r.Chance(1, 4),
			Workers: [][]c10Op{{c10Symbol(a, L, next)}, {c10Symbol(b, L, next)}}}
		c10Explore(c, p, 1000)
	case idx < pairs+sampled:
		L := r.Intn(4)
		p := c10Prog{Init: L, Fifo: r.Bool(), Cap: c10CapFor(r.Intn(3), L), Kind: Kinds[r.Intn(5)], Policy: r.Chance(1, 4)}
		nw := 2 + r.Intn(2)
		for w := 0; w < nw; w++ {
			var ops []c10Op
			for i, k := 0, r.Range(1, 3); i < k; i++ {
				ops = append(ops, c10ProgSymbol(r, p.Policy, L, next))
			}
			p.Workers = append(p.Workers, ops)
		}
		budget := 200
		if c.Tier == "thorough" {
			budget = 400
		}
		c10Explore(c, p, budget)
	case idx < pairs+sampled+stress:
		c10Stress(c)
	case idx < pairs+sampled+stress+c10HammerCases(c.Tier):
		if (idx-(pairs+sampled+stress))%120 == 60 {
			c10Giant(c)
		} else {
			c10Hammer(c)
		}
	default:
		c10Duel(c, idx-(pairs+sampled+stress+c10HammerCases(c.Tier)))
	}
}

// duels: every ordered pair of the 13 mutators x LIFO/FIFO, each fought many times by two free-running goroutines
const c10DuelCases = c10Alphabet * c10Alphabet * 2

func c10DuelTrials(tier string) int {
	if tier == "thorough" {
		return 20000
	}
	return 1500
}

// c10Duel: ONE pair of operations, two long-lived goroutines, thousands of trials on one registered stack. Before each
// trial the content is restored; the two calls are released together by a spin barrier with a skew that sweeps the second
// call across the first; afterwards (return values, final content) must be what one of the two sequential orders gives.
// No search is needed, so the number of trials can be large enough to land inside windows of a few instructions.
func c10Duel(c *core.Ctx, k int) {
	r := c.Rng
	symA, symB := k%c10Alphabet, (k/c10Alphabet)%c10Alphabet
	fifo := k/(c10Alphabet*c10Alphabet) == 1
	L := 3
	n := 100
	next := func() int { n++; return n }
	opA, opB := c10Symbol(symA, L, next), c10Symbol(symB, L, next)
	capacity := 0
	if r.Chance(1, 3) {
		capacity = L + 1
	}
	s := NewStack(Kinds[r.Intn(5)], capacity)
	if fifo {
		s.SetFIFO(true)
	}
	if r.Chance(1, 3) {
		// through an (accepting) push policy: whatever the library does around the user's closure is part of the call
		s.SetPushPolicy(func(...any) error { return nil })
		c.Count("duel.pairs-with-push-policy")
	}
	neg := false
	if (opA.K == "Remove" && opA.I == L-1) || (opB.K == "Remove" && opB.I == L-1) {
		if r.Chance(1, 2) {
			// "the last one" spelled from the far end: resolved against the length the stack has WHEN THE CALL TAKES EFFECT
			neg = true
			s.SetNegativeIndices(true)
			if opA.K == "Remove" && opA.I == L-1 {
				opA.I = -1
			}
			if opB.K == "Remove" && opB.I == L-1 {
				opB.I = -1
			}
			c.Count("duel.pairs-with-negative-index")
		}
	}
	s.SetMutex()
	c10Register(s)
	init := []any{1, 2, 3}
	initEnc := encodeList(init)
	c10NegModel = neg
	defer func() { c10NegModel = false }()
	// the two sequential outcomes
	type outcome struct {
		a, b  c10Out
		final string
	}
	var legal [2]outcome
	{
		oa, st := c10Step(initEnc, fifo, capacity, opA)
		ob, st2 := c10Step(st, fifo, capacity, opB)
		legal[0] = outcome{oa, ob, st2}
		ob2, st3 := c10Step(initEnc, fifo, capacity, opB)
		oa2, st4 := c10Step(st3, fifo, capacity, opA)
		legal[1] = outcome{oa2, ob2, st4}
	}
	desc := map[string]any{"a": opA.String(), "b": opB.String(), "fifo": fifo, "cap": capacity}
	trials := c10DuelTrials(c.Tier)
	var ready atomic.Int64
	var skew atomic.Int64
	var outA, outB c10Out
	var panicked atomic.Value
	wake := [2]chan bool{make(chan bool), make(chan bool)} // parked workers block here (no spinning between trials)
	fin := make(chan struct{}, 2)
	worker := func(op c10Op, out *c10Out, me int) {
		for <-wake[me] {
			// a short spin barrier, so that the two calls start within nanoseconds of each other
			ready.Add(1)
			for spins := 0; ready.Load() < 2 && spins < 20000; spins++ {
				if spins >= 128 {
					runtime.Gosched() // the partner has not been scheduled yet: make room for it rather than burn the core
				}
			}
			if me == 1 {
				for i := int64(0); i < skew.Load(); i++ {
					_ = i
				}
			}
			if p, msg, site := Guard(func() { *out = c10Apply(s, op) }); p {
				panicked.Store(op.String() + " panicked (" + site + "): " + msg)
			}
			fin <- struct{}{}
		}
	}
	go worker(opA, &outA, 0)
	go worker(opB, &outB, 1)
	stopWorkers := func() { wake[0] <- false; wake[1] <- false }
	watchdog := time.NewTimer(time.Hour)
	defer watchdog.Stop()
	for t := 1; t <= trials; t++ {
		// restore the content (sequentially: the workers are parked)
		s.Reset()
		s.Push(init...)
		skew.Store(int64((t * 7) % 160))
		ready.Store(0)
		wake[0] <- true
		wake[1] <- true
		if t%256 == 1 {
			watchdog.Reset(90 * time.Second) // (covers the next 256 trials)
			core.Beat()
		}
		for i := 0; i < 2; i++ {
			select {
			case <-fin:
			case <-watchdog.C:
				c.Inconclusive("C10 duel: a call did not return within the 90 s watchdog (possible deadlock)")
				return
			}
		}
		if v := panicked.Load(); v != nil {
			stopWorkers()
			c.Violate("duel:panic", fmt.Sprintf("%v (trial %d of %s || %s)", v, t, opA, opB), desc)
			return
		}
		final := encodeList(contentOf(s))
		got := outcome{outA, outB, final}
		if got != legal[0] && got != legal[1] {
			stopWorkers()
			c.Violate("duel:not-a-sequential-outcome", fmt.Sprintf("trial %d: %s -> %+v || %s -> %+v on [%s] (fifo=%v cap=%d) ended as [%s]; A;B gives %+v %+v [%s], B;A gives %+v %+v [%s]",
				t, opA, outA, opB, outB, initEnc, fifo, capacity, final, legal[0].a, legal[0].b, legal[0].final, legal[1].a, legal[1].b, legal[1].final), desc)
			return
		}
	}
	stopWorkers()
	c.Count("duel.pairs")
	c.Add("duel.trials", int64(trials))
	c.NontrivialStr(fmt.Sprintf("duel|%s|%s|%v", opA, opB, fifo))
}

func c10HammerCases(tier string) int {
	if tier == "thorough" {
		return 12000
	}
	return 480
}

// c10Hammer: long free-running runs whose verdict needs no search. P goroutines cycle the stack (Pop, then Push of the
// popped value), others overwrite position 0 or swap positions 0 and 1. The stack starts with P+2 unique values, so in
// EVERY sequential order of whole calls it holds at least two values at any time: each Pop must return a value, each
// Replace(x,0) must report success, nothing may panic, and at the end the length is what it was, every
// value is an initial one or a replacement token, and none occurs twice (conservation with unique values).
// c10Giant: the same conservation argument on a stack of another magnitude. A mutex-enabled stack is preloaded with tens of
// thousands of unique values; three goroutines pop it down to a fraction of its size while a fourth keeps pushing new
// unique values. Afterwards every value ever put in came out exactly once or is still there.
func c10Giant(c *core.Ctx) {
	r := c.Rng
	N := []int{70000, 66000, 140000}[r.Intn(3)]
	if c.Tier == "thorough" && r.Chance(1, 2) {
		N = 300000
	}
	fifo := false // (taking from the front of a slice-backed stack is linear in its length: a giant FIFO run is quadratic)
	s := NewStackArgs(Kinds[r.Intn(5)])
	if fifo {
		s.SetFIFO(true)
	}
	batch := make([]any, 0, 1000)
	for v := 1; v <= N; v++ {
		batch = append(batch, v)
		if len(batch) == 1000 || v == N {
			s.Push(batch...)
			batch = batch[:0]
		}
	}
	s.SetMutex()
	c10Register(s)
	desc := map[string]any{"preloaded": N, "fifo": fifo}
	target := N / 8 // pop until an eighth is left
	M := 3000       // pushed meanwhile
	var popped [3][]int
	var bad atomic.Value
	var wg sync.WaitGroup
	var remaining atomic.Int64
	remaining.Store(int64(N - target))
	for w := 0; w < 3; w++ {
		wg.Add(1)
		go func(w int) {
			defer wg.Done()
			defer func() {
				if p := recover(); p != nil {
					bad.Store(fmt.Sprintf("Pop panicked: %v", p))
				}
			}()
			for remaining.Add(-1) >= 0 {
				v, ok := s.Pop()
				if !ok {
					bad.Store("Pop found nothing although tens of thousands of values are present in every sequential order")
					return
				}
				popped[w] = append(popped[w], asInt(v))
				if len(popped[w])%4096 == 0 {
					core.Beat()
				}
			}
		}(w)
	}
	wg.Add(1)
	go func() {
		defer wg.Done()
		defer func() {
			if p := recover(); p != nil {
				bad.Store(fmt.Sprintf("Push panicked: %v", p))
			}
		}()
		for i := 1; i <= M; i++ {
			s.Push(N + i)
			if i%8 == 0 {
				runtime.Gosched()
			}
		}
	}()
	wg.Wait()
	if b, _ := bad.Load().(string); b != "" {
		c.Violate("giant:"+strings.Fields(b)[0], b, desc)
		return
	}
	seen := make([]uint8, N+M+1)
	for w := range popped {
		for _, v := range popped[w] {
			if v < 1 || v > N+M {
				c.Violate("giant:fabricated", fmt.Sprintf("Pop returned %d, which nobody put in", v), desc)
				return
			}
			seen[v]++
		}
	}
	for _, v := range contentOf(s) {
		iv := asInt(v)
		if iv < 1 || iv > N+M {
			c.Violate("giant:fabricated", fmt.Sprintf("the stack holds %s, which nobody put in", Show(v)), desc)
			return
		}
		seen[iv]++
	}
	lost, dup := 0, 0
	for v := 1; v <= N+M; v++ {
		switch {
		case seen[v] == 0:
			lost++
		case seen[v] > 1:
			dup++
		}
	}
	if lost > 0 || dup > 0 {
		c.Violate("giant:conservation", fmt.Sprintf("of %d preloaded and %d pushed unique values, %d are neither popped nor present and %d occur more than once (final Len %d)", N, M, lost, dup, s.Len()), desc)
		return
	}
	c.Count("giant.runs")
	c.NontrivialStr(fmt.Sprintf("giant|%d|%v", N, fifo))
}

func c10Hammer(c *core.Ctx) {
	r := c.Rng
	P := r.Range(1, 3)
	fifo := r.Chance(2, 3)
	kind := Kinds[r.Intn(5)]
	L0 := P + 2
	capacity := 0
	if r.Chance(1, 3) {
		capacity = L0 + r.Intn(2)
	}
	s := NewStack(kind, capacity)
	if fifo {
		s.SetFIFO(true)
	}
	legit := map[any]bool{}
	for i := 0; i < L0; i++ {
		s.Push(1000 + i)
		legit[1000+i] = true
	}
	s.SetMutex()
	c10Register(s)
	replacers, swappers := r.Intn(3), r.Intn(2)
	if replacers+swappers == 0 {
		replacers = 1
	}
	iters := r.Range(300, 1200)
	desc := map[string]any{"kind": kind, "fifo": fifo, "cap": capacity, "cyclers": P, "replacers": replacers, "swappers": swappers, "iterations": iters}
	var bad atomic.Value // first refusal
	var nPop, nRep, nSwap atomic.Int64
	fail := func(key, msg string) { bad.CompareAndSwap(nil, [2]string{key, msg}) }
	var wg sync.WaitGroup
	start := make(chan struct{})
	run := func(f func(i int)) {
		wg.Add(1)
		go func() {
			defer wg.Done()
			<-start
			for i := 0; i < iters && bad.Load() == nil; i++ {
				if p, msg, site := Guard(func() { f(i) }); p {
					fail("hammer:panic:"+site, "a call panicked: "+msg)
				}
			}
		}()
	}
	for w := 0; w < P; w++ {
		run(func(i int) {
			v, ok := s.Pop()
			nPop.Add(1)
			if !ok || v == nil {
				fail("hammer:pop-refused", fmt.Sprintf("Pop returned (%s,%v) on a stack that holds at least two values in every sequential order", Show(v), ok))
				return
			}
			if _, isInt := v.(int); !isInt {
				fail("hammer:pop-fabricated", fmt.Sprintf("Pop returned %s, which nobody stored", Show(v)))
				return
			}
			s.Push(v)
		})
	}
	var tokMu sync.Mutex
	for w := 0; w < replacers; w++ {
		w := w
		run(func(i int) {
			tok := 100000*(w+1) + i
			tokMu.Lock()
			legit[tok] = true
			tokMu.Unlock()
			nRep.Add(1)
			if !s.Replace(tok, 0) {
				fail("hammer:replace-refused", "Replace(x,0) returned false on a stack that holds at least two values in every sequential order")
			}
		})
	}
	if capacity == 0 && r.Bool() {
		// a batcher: one Push of 9..14 fresh values, then as many Pops (each must succeed: the stack never holds fewer
		// than two values); whatever a big batch does before it takes the lock shows as a lost or duplicated value
		desc["batcher"] = true
		run(func(i int) {
			if i%8 != 0 {
				return
			}
			n := 9 + i%6
			vals := make([]any, n)
			tokMu.Lock()
			for j := range vals {
				vals[j] = 5000000 + i*16 + j
				legit[vals[j]] = true
			}
			tokMu.Unlock()
			s.Push(vals...)
			for j := 0; j < n; j++ {
				nPop.Add(1)
				if v, ok := s.Pop(); !ok || v == nil {
					fail("hammer:pop-refused", fmt.Sprintf("Pop returned (%s,%v) right after a batch of %d values had been pushed", Show(v), ok, n))
					return
				}
			}
		})
	}
	for w := 0; w < swappers; w++ {
		run(func(i int) {
			nSwap.Add(1)
			s.Swap(0, 1)
		})
	}
	close(start)
	done := make(chan struct{})
	go func() { wg.Wait(); close(done) }()
	select {
	case <-done:
	case <-time.After(90 * time.Second):
		c.Inconclusive("C10 hammer run did not finish within the 90 s watchdog")
		return
	}
	c.Count("hammer.runs")
	c.Add("hammer.pops", nPop.Load())
	c.Add("hammer.replaces", nRep.Load())
	c.Add("hammer.swaps", nSwap.Load())
	if b := bad.Load(); b != nil {
		kv := b.([2]string)
		c.Violate(kv[0], kv[1]+fmt.Sprintf(" (after %d Pops, %d Replaces, %d Swaps)", nPop.Load(), nRep.Load(), nSwap.Load()), desc)
		return
	}
	d, ok := stackage.VerifDump(s)
	if !ok || !d.HasCfg {
		c.Violate("hammer:cfg-slot-lost", "configuration record no longer in slot 0", desc)
		return
	}
	if s.Len() != L0 {
		c.Violate("hammer:length", fmt.Sprintf("final length %d, started with %d and every Pop was followed by a Push", s.Len(), L0), desc)
		return
	}
	seen := map[any]bool{}
	for i := 0; i < s.Len(); i++ {
		v, _ := s.Index(i)
		if !legit[v] || seen[v] {
			c.Violate("hammer:content", fmt.Sprintf("final position %d holds %s (never stored, or present twice)", i, Show(v)), desc)
			return
		}
		seen[v] = true
	}
	c.NontrivialStr("hammer|" + core.JSON(desc))
}

// ---------------------------------------------------------------- free-running stress

// every stack used by the stress part is kept alive and registered so that race reports can be classified by address
type c10Region struct {
	hdr, cfg, cfgSize, ldrOff, optOff uintptr
}

var (
	c10Regions []c10Region
	c10Keep    []stackage.Stack
	c10RegMu   sync.Mutex
)

func c10Register(s stackage.Stack) {
	d, _ := stackage.VerifDump(s)
	c10RegMu.Lock()
	c10Regions = append(c10Regions, c10Region{d.HdrAddr, d.CfgAddr, d.CfgSize, d.LdrOff, d.OptOff})
	c10Keep = append(c10Keep, s)
	c10RegMu.Unlock()
}

func c10Classify(addr uint64) string {
	a := uintptr(addr)
	for _, r := range c10Regions {
		if a >= r.hdr && a < r.hdr+24 {
			return "header"
		}
		if a >= r.cfg && a < r.cfg+r.cfgSize {
			off := a - r.cfg
			switch {
			case off >= r.ldrOff && off < r.ldrOff+8:
				return "cfg.ldr"
			case off >= r.optOff && off < r.optOff+2:
				return "cfg.opt"
			}
			return "cfg.other"
		}
	}
	return "elsewhere"
}

var c10Yield atomic.Uint64

func c10Stress(c *core.Ctx) {
	r := c.Rng
	L := r.Intn(4)
	p := c10Prog{Init: L, Fifo: r.Bool(), Cap: c10CapFor(r.Intn(3), L), Kind: Kinds[r.Intn(5)], Policy: r.Chance(1, 4)}
	n := 100
	next := func() int { n++; return n }
	nw := r.Range(3, 7)
	for w := 0; w < nw; w++ {
		var ops []c10Op
		for i, k := 0, r.Range(2, 3+r.Intn(2)); i < k; i++ {
			ops = append(ops, c10ProgSymbol(r, p.Policy, L, next))
		}
		p.Workers = append(p.Workers, ops)
	}
	s, init := p.build()
	c10Register(s)
	// widen the window between an operation's unlocked prologue and its critical section
	yieldEvery := uint64(r.Range(2, 5))
	stackage.VerifSetHook(func(point string, id uintptr) {
		if point == "lock.want" && c10Yield.Add(1)%yieldEvery == 0 {
			runtime.Gosched()
		}
	})
	defer stackage.VerifSetHook(nil)
	var clock atomic.Int64
	var mu sync.Mutex
	var hist []porcupine.Operation
	var panics []string
	var wg sync.WaitGroup
	start := make(chan struct{})
	for w, ops := range p.Workers {
		wg.Add(1)
		go func(w int, ops []c10Op) {
			defer wg.Done()
			<-start
			for _, op := range ops {
				call := clock.Add(1)
				var out c10Out
				pan, msg, site := Guard(func() { out = c10Apply(s, op) })
				ret := clock.Add(1)
				mu.Lock()
				if pan {
					panics = append(panics, fmt.Sprintf("%s panicked (%s): %s", op, site, msg))
				}
				hist = append(hist, porcupine.Operation{ClientId: w, Input: op, Call: call, Output: out, Return: ret})
				mu.Unlock()
			}
		}(w, ops)
	}
	close(start)
	done := make(chan struct{})
	go func() { wg.Wait(); close(done) }()
	select {
	case <-done:
	case <-time.After(15 * time.Second):
		c.Inconclusive("a stress case did not finish within its generous watchdog (possible deadlock): " + p.String())
		return
	}
	c.Count("stress.histories")
	c.Add("stress.operations", int64(len(hist)))
	desc := map[string]any{"program": p}
	if len(panics) > 0 {
		c.Violate("stress:panic", panics[0]+" | program "+p.String(), desc)
		return
	}
	d, _ := stackage.VerifDump(s)
	if !d.Slot0Cfg {
		c.Violate("stress:cfg-slot-lost", "configuration record no longer in slot 0 | program "+p.String(), desc)
		return
	}
	if p.Cap > 0 && len(d.Slots) > p.Cap {
		c.Violate("stress:capacity-exceeded", fmt.Sprintf("%d elements with capacity %d | program %s", len(d.Slots), p.Cap, p), desc)
		return
	}
	final := c10Apply(s, c10Op{K: "ReadAll"})
	t := clock.Add(1)
	hist = append(hist, porcupine.Operation{ClientId: nw, Input: c10Op{K: "ReadAll"}, Call: t, Output: final, Return: t + 1})
	res, _ := porcupine.CheckOperationsVerbose(c10Model(init, p.Fifo, p.Cap), hist, 4*time.Second)
	switch res {
	case porcupine.Unknown:
		c.Count("stress.linearizability-timeouts")
	case porcupine.Illegal:
		var hs []string
		for _, o := range hist {
			hs = append(hs, fmt.Sprintf("w%d[%d,%d] %s -> %+v", o.ClientId, o.Call, o.Return, o.Input.(c10Op), o.Output.(c10Out)))
		}
		c.Violate("stress:illegal-history", "free-running history is not linearizable:\n  "+strings.Join(hs, "\n  ")+"\n  program "+p.String(), desc)
		return
	default:
		c.Count("stress.histories-linearizable")
	}
	c.NontrivialStr("stress|" + p.String())
}

// c10Teardown classifies the race reports of this child by the memory they touch.
func c10Teardown(c *core.Ctx) {
	prefix := os.Getenv("VCHECK_RACE_LOG")
	if prefix == "" {
		if !c.Verbose {
			c.Inconclusive("C10 child is not running under the race detector")
		}
		return
	}
	reps := core.ParseRaceLogs(prefix) // the prefix is private to this child; the runtime appends ".<pid>"
	for _, rp := range reps {
		cls := c10Classify(rp.A.Addr)
		kind := "rw"
		if rp.A.Write && rp.B.Write {
			kind = "ww"
		}
		reader := rp.A
		if rp.A.Write {
			reader = rp.B
		}
		site := "?"
		for _, f := range reader.Frames {
			if i := strings.Index(f, "go-stackage."); i >= 0 {
				site = f[i+len("go-stackage."):]
				break
			}
		}
		if kind == "rw" && strings.HasPrefix(site, "(*stack).config") && strings.HasPrefix(cls, "cfg.") {
			// (*stack).config reads the slice header and the two words of slot 0 and nothing else; it never looks INSIDE a
			// configuration record. If the address it read lies in a range registered as some stack's configuration
			// record, that range is stale (the allocator has placed a new backing array where a record used to be):
			// what was read is slot 0 of a backing array, i.e. "elsewhere".
			cls = "elsewhere"
			c.Count("race.reclassified-stale-configuration-range")
		}
		key := fmt.Sprintf("race:%s:%s", cls, kind)
		if kind == "rw" {
			key += ":" + site
		}
		writer := rp.A
		if !rp.A.Write {
			writer = rp.B
		}
		wsite := "?"
		for _, f := range writer.Frames {
			if i := strings.Index(f, "go-stackage."); i >= 0 {
				wsite = f[i+len("go-stackage."):]
				break
			}
		}
		c.Count("race.by-writer." + cls + "." + kind + "." + site + "<-" + wsite)
		if kind == "rw" && cls == "elsewhere" {
			// outside the registered header and configuration record the only thing (*stack).config reads is slot 0 of a
			// backing array; which function wrote it identifies the call site
			key += "<-" + wsite
		}
		c.Violate(key, "data race on "+cls+" memory:\n"+rp.Raw, map[string]any{"report": rp.Raw})
	}
	c.Add("race-reports", int64(len(reps)))
}

func init() {
	core.Register(&core.Monitor{
		ID: "C10",
		Cases: func(tier string) int {
			a, b, s := c10Tier(tier)
			return a + b + s + c10HammerCases(tier) + c10DuelCases
		},
		Run:      c10Run,
		Teardown: c10Teardown,
		Race:     true,
		Rule: "explorer: a cooperative scheduler over the lock-point hook runs exactly one worker at a time and switches only at operation starts, immediately before a lock acquisition and immediately after a lock release, so an execution is a function of (program, schedule); " +
			"ALL 2-worker x 1-op programs over a 13-symbol mutator alphabet x initial length 0..3 x LIFO/FIFO x capacity {none, Len, Len+1} with ALL their interleavings, plus sampled 2..3-worker x 1..3-op programs with up to 200 (quick) / 400 (thorough) interleavings each (depth-first, re-execution). " +
			"At every switch a VerifDump snapshot decides 'writes only inside the critical section' (content, configuration slot, lock bookkeeping), capacity and the presence of the configuration record; deadlock = no enabled worker; each history (call/return stamps + final read) is checked by porcupine against the sequential list model. " +
			"stress: 3..7 free-running goroutines x 2..4 ops with yields injected at lock.want, histories checked by porcupine; the whole run executes under the Go race detector and every report is classified by the registered address it touches (slice header / configuration record field / elsewhere) and by the reading function. " +
			"hammer (480 / 12 000 runs): 1-3 goroutines cycle a stack of P+2 unique values (Pop then Push of the popped value) while others Replace position 0 or Swap(0,1), 300-1200 iterations each; since at least two values are present in every sequential order, every Pop/Replace/Swap must succeed, and at the end length and content are conserved (unique values). " +
			"duels (338 pairs: every ordered pair of the 13 mutators x LIFO/FIFO; 1 500 / 20 000 trials each): two long-lived goroutines perform the two calls on one stack, released together by a spin barrier with a sweeping skew; each trial must end in one of the two sequential outcomes (return values and final content). " +
			"non-trivial = program for which at least two different interleavings were executed, or a completed stress history; distinct = program text.",
		Assumptions: []string{
			"interleavings are explored at lock-acquisition granularity; instruction-level interleavings inside a block are visible only to the race detector, and only when the stress run produces them",
			"values are unique ints, never nil, so every read identifies the write it observed",
			"porcupine timeouts in the stress part are counted, not judged",
		},
		Floors: func(tier string) map[string]int64 {
			return map[string]int64{"explorer.executions": 10000, "explorer.programs-exhausted": 3000, "explorer.histories-linearizable": 5000, "stress.histories": 500, "stress.histories-linearizable": 300, "hammer.runs": 400, "hammer.pops": 100000, "duel.pairs": 300, "duel.trials": 400000}
		},
	})
}
