package mon

import (
	"fmt"
	"math"
	"reflect"
	"runtime/debug"
	"strings"

	stackage "github.com/JesseCoretta/go-stackage"
	"verifharness/core"
)

// ---------------------------------------------------------------- alias types used by several monitors

// AStack is a user-declared type derived from Stack without methods of its own.
// DeepPtr wraps v in depth levels of pointers (*...*T).
func DeepPtr(v any, depth int) any {
	rv := reflect.ValueOf(v)
	for i := 0; i < depth; i++ {
		p := reflect.New(rv.Type())
		p.Elem().Set(rv)
		rv = p
	}
	return rv.Interface()
}

// DeepNil is a nil pointer whose type has depth levels (*...*int)(nil).
func DeepNil(depth int) any {
	t := reflect.TypeOf(0)
	for i := 0; i < depth; i++ {
		t = reflect.PointerTo(t)
	}
	return reflect.Zero(t).Interface()
}

type AStack stackage.Stack

// SStack is a user-declared type derived from Stack with its own String method
// (delegating to the native rendering, as the README's examples do).
type SStack stackage.Stack

func (r SStack) String() string { return stackage.Stack(r).String() }

// ACond is a user-declared type derived from Condition without methods.
type ACond stackage.Condition

// SCond is a user-declared type derived from Condition with its own String method.
type SCond stackage.Condition

func (r SCond) String() string { return stackage.Condition(r).String() }

// XStack / XCond are aliases whose own String method does NOT agree with the native rendering: the parent must still
// treat them exactly like the native value they convert to.
type XStack stackage.Stack

func (r XStack) String() string { return "<custom stack text>" }

type XCond stackage.Condition

func (r XCond) String() string { return "<custom condition text>" }

// ---------------------------------------------------------------- recursive snapshots

// Snap is a recursive VerifDump: the raw record of a Stack/Condition plus the
// snapshots of every Stack/Condition found in its slots or expression.
type Snap struct {
	S     stackage.VerifSnapshot
	Kids  []*Snap // per slot (nil entry = not a Stack/Condition)
	Expr  *Snap   // condition expression, when it is a Stack/Condition
	Depth int
}

// Take snapshots x (Stack, Condition, pointer or alias) recursively. ok=false if x is neither.
func Take(x any) (*Snap, bool) { return take(x, 0) }

func take(x any, depth int) (*Snap, bool) {
	if x == nil || depth > 64 {
		return nil, false
	}
	// only the Stack/Condition forms the harness produces are handed to VerifDump: for anything else VerifDump would
	// run the library's reflective converters, i.e. the monitor itself would touch library state (e.g. warm a cache)
	if _, isS := knownStack(x); !isS {
		if _, isC := knownCond(x); !isC {
			return nil, false
		}
	}
	s, ok := stackage.VerifDump(x)
	if !ok {
		return nil, false
	}
	sn := &Snap{S: s, Depth: depth}
	if s.IsStack {
		sn.Kids = make([]*Snap, len(s.Slots))
		for i, v := range s.Slots {
			if k, ok := take(v, depth+1); ok {
				sn.Kids[i] = k
			}
		}
	} else if !s.Nil {
		if k, ok := take(s.Ex, depth+1); ok {
			sn.Expr = k
		}
	}
	return sn, true
}

// SameValue compares two element values for "is this still the very same value":
// identity for reference kinds, bit equality for floats, == otherwise.
func SameValue(a, b any) bool {
	if a == nil || b == nil {
		return a == nil && b == nil
	}
	ta, tb := reflect.TypeOf(a), reflect.TypeOf(b)
	if ta != tb {
		return false
	}
	va, vb := reflect.ValueOf(a), reflect.ValueOf(b)
	switch ta.Kind() {
	case reflect.Func, reflect.Map, reflect.Chan, reflect.UnsafePointer:
		return va.Pointer() == vb.Pointer()
	case reflect.Ptr:
		return va.Pointer() == vb.Pointer()
	case reflect.Slice:
		return va.Len() == vb.Len() && (va.Len() == 0 && va.IsNil() == vb.IsNil() || va.Len() > 0 && va.Pointer() == vb.Pointer())
	case reflect.Float32, reflect.Float64:
		return math.Float64bits(va.Float()) == math.Float64bits(vb.Float())
	case reflect.Complex64, reflect.Complex128:
		ca, cb := va.Complex(), vb.Complex()
		return math.Float64bits(real(ca)) == math.Float64bits(real(cb)) && math.Float64bits(imag(ca)) == math.Float64bits(imag(cb))
	}
	if ta.Comparable() {
		eq := false
		func() {
			defer func() { recover() }()
			eq = a == b
		}()
		if eq {
			return true
		}
	}
	return reflect.DeepEqual(a, b)
}

func errText(e error) string {
	if e == nil {
		return "<nil>"
	}
	return e.Error()
}

// CfgDiff compares the configuration records of two snapshots. ignoreOpt masks option bits not to compare;
// skip names fields to leave out ("err", "ldr", "log").
func CfgDiff(a, b stackage.VerifSnapshot, ignoreOpt uint16, skip ...string) string {
	sk := map[string]bool{}
	for _, s := range skip {
		sk[s] = true
	}
	if a.HasCfg != b.HasCfg {
		return fmt.Sprintf("cfg-present: %v -> %v", a.HasCfg, b.HasCfg)
	}
	if a.Typ != b.Typ {
		return fmt.Sprintf("typ: %d -> %d", a.Typ, b.Typ)
	}
	if a.Opt&^ignoreOpt != b.Opt&^ignoreOpt {
		return fmt.Sprintf("opt: %#06x -> %#06x", a.Opt, b.Opt)
	}
	if a.Cap != b.Cap {
		return fmt.Sprintf("cap: %d -> %d", a.Cap, b.Cap)
	}
	if a.Ord != b.Ord {
		return fmt.Sprintf("ord: %v -> %v", a.Ord, b.Ord)
	}
	if a.ID != b.ID {
		return fmt.Sprintf("id: %q -> %q", a.ID, b.ID)
	}
	if a.Cat != b.Cat {
		return fmt.Sprintf("cat: %q -> %q", a.Cat, b.Cat)
	}
	if a.Sym != b.Sym {
		return fmt.Sprintf("sym: %q -> %q", a.Sym, b.Sym)
	}
	if a.Ljc != b.Ljc {
		return fmt.Sprintf("ljc: %q -> %q", a.Ljc, b.Ljc)
	}
	if !reflect.DeepEqual(normEnc(a.Enc), normEnc(b.Enc)) {
		return fmt.Sprintf("enc: %v -> %v", a.Enc, b.Enc)
	}
	if !sk["err"] && a.Err != b.Err {
		return fmt.Sprintf("err: %s -> %s", errText(a.Err), errText(b.Err))
	}
	if a.AuxPtr != b.AuxPtr {
		return fmt.Sprintf("aux identity: %#x -> %#x", a.AuxPtr, b.AuxPtr)
	}
	if len(a.Aux) != len(b.Aux) {
		return fmt.Sprintf("aux size: %d -> %d", len(a.Aux), len(b.Aux))
	}
	for k, v := range a.Aux {
		w, ok := b.Aux[k]
		if !ok || !SameValue(v, w) {
			return fmt.Sprintf("aux[%q] changed", k)
		}
	}
	names := [9]string{"evl", "ppf", "vpf", "rpf", "eqf", "lss", "umf", "maf", "mfn"}
	for i := range a.Fn {
		if a.Fn[i] != b.Fn[i] {
			return fmt.Sprintf("closure %s: %#x -> %#x", names[i], a.Fn[i], b.Fn[i])
		}
	}
	if !sk["log"] {
		if a.LogSys != b.LogSys || a.LogPtr != b.LogPtr {
			return fmt.Sprintf("logger: %#x -> %#x", a.LogPtr, b.LogPtr)
		}
		if a.LogLvl != b.LogLvl {
			return fmt.Sprintf("loglevels: %#x -> %#x", a.LogLvl, b.LogLvl)
		}
	}
	if a.Mtx != b.Mtx {
		return fmt.Sprintf("mutex: %v -> %v", a.Mtx, b.Mtx)
	}
	if !sk["ldr"] && a.Ldr != b.Ldr {
		return fmt.Sprintf("ldr: %v -> %v", a.Ldr, b.Ldr)
	}
	return ""
}

func normEnc(e [][]string) [][]string {
	if len(e) == 0 {
		return nil
	}
	return e
}

// DiffOpts controls Diff.
type DiffOpts struct {
	IgnoreOpt uint16   // option bits ignored at the root only
	SkipRoot  []string // cfg fields skipped at the root only
	Shallow   bool     // compare the root instance only: nested Stacks/Conditions by identity, not by their insides
	Raw       bool     // also compare the raw-memory fingerprints of the configuration / log / condition records (any field, known or not)
}

// Diff returns "" when the two recursive snapshots describe exactly the same state,
// else the path and nature of the first difference.
func Diff(a, b *Snap, o DiffOpts) string { return diff(a, b, o, "", true) }

func diff(a, b *Snap, o DiffOpts, path string, root bool) string {
	if a == nil || b == nil {
		if a == nil && b == nil {
			return ""
		}
		return path + ": stack/condition presence changed"
	}
	if a.S.IsStack != b.S.IsStack || a.S.Nil != b.S.Nil {
		return path + ": instance kind/nilness changed"
	}
	var d string
	if root {
		d = CfgDiff(a.S, b.S, o.IgnoreOpt, o.SkipRoot...)
	} else {
		d = CfgDiff(a.S, b.S, 0)
	}
	if d != "" {
		return path + "." + d
	}
	if o.Raw && !(root && (o.IgnoreOpt != 0 || len(o.SkipRoot) > 0)) && a.S.CfgAddr == b.S.CfgAddr {
		// every named field agrees; the raw memory of the records must agree as well (a field this harness does not
		// know about - one a later version adds - is still part of "its configuration")
		switch {
		case a.S.CfgRaw != b.S.CfgRaw:
			return path + ": the raw memory of the configuration record changed although every field known to the harness is unchanged (hidden state)"
		case a.S.LogRaw != b.S.LogRaw:
			return path + ": the raw memory of the log record changed (hidden state)"
		case a.S.CondRaw != b.S.CondRaw:
			return path + ": the raw memory of the condition record changed (hidden state)"
		}
	}
	if a.S.IsStack {
		if a.S.HdrAddr != b.S.HdrAddr {
			return path + ": stack instance replaced"
		}
		if a.S.Slot0Cfg != b.S.Slot0Cfg {
			return fmt.Sprintf("%s: slot0-is-config %v -> %v", path, a.S.Slot0Cfg, b.S.Slot0Cfg)
		}
		if a.S.CfgAddr != b.S.CfgAddr {
			return path + ": configuration record replaced"
		}
		if len(a.S.Slots) != len(b.S.Slots) {
			return fmt.Sprintf("%s: len %d -> %d", path, len(a.S.Slots), len(b.S.Slots))
		}
		for i := range a.S.Slots {
			p := fmt.Sprintf("%s[%d]", path, i)
			if (a.Kids[i] == nil) != (b.Kids[i] == nil) {
				return p + ": element changed"
			}
			if a.Kids[i] != nil {
				if a.Kids[i].ident() != b.Kids[i].ident() {
					return p + ": nested instance replaced"
				}
				if !SameValue(a.S.Slots[i], b.S.Slots[i]) {
					return fmt.Sprintf("%s: stored value changed form (%T -> %T)", p, a.S.Slots[i], b.S.Slots[i])
				}
				if o.Shallow {
					continue
				}
				if d := diff(a.Kids[i], b.Kids[i], o, p, false); d != "" {
					return d
				}
			} else if !SameValue(a.S.Slots[i], b.S.Slots[i]) {
				return fmt.Sprintf("%s: element %v -> %v", p, a.S.Slots[i], b.S.Slots[i])
			}
		}
		return ""
	}
	if a.S.Nil {
		return ""
	}
	if a.S.CfgAddr != b.S.CfgAddr {
		return path + ": condition configuration record replaced"
	}
	if a.S.Kw != b.S.Kw {
		return fmt.Sprintf("%s.kw: %q -> %q", path, a.S.Kw, b.S.Kw)
	}
	if !SameValue(a.S.Op, b.S.Op) {
		return fmt.Sprintf("%s.op: %v -> %v", path, a.S.Op, b.S.Op)
	}
	if (a.Expr == nil) != (b.Expr == nil) {
		return path + ".ex: expression changed"
	}
	if a.Expr != nil {
		if a.Expr.ident() != b.Expr.ident() {
			return path + ".ex: nested instance replaced"
		}
		if !SameValue(a.S.Ex, b.S.Ex) {
			return fmt.Sprintf("%s.ex: stored expression changed form (%T -> %T)", path, a.S.Ex, b.S.Ex)
		}
		if o.Shallow {
			return ""
		}
		return diff(a.Expr, b.Expr, o, path+".ex", false)
	}
	if !SameValue(a.S.Ex, b.S.Ex) {
		return fmt.Sprintf("%s.ex: %v -> %v", path, a.S.Ex, b.S.Ex)
	}
	return ""
}

func (s *Snap) ident() uintptr {
	if s.S.IsStack {
		return s.S.HdrAddr
	}
	return s.S.CfgAddr
}

// ---------------------------------------------------------------- guarded calls

// Guard runs f and reports a panic as (message, site). site is the innermost go-stackage function.
func Guard(f func()) (panicked bool, msg, site string) {
	defer func() {
		if r := recover(); r != nil {
			st := string(debug.Stack())
			panicked = true
			msg = fmt.Sprintf("%v", r)
			site = core.PanicSite(st)
			if len(msg) > 200 {
				msg = msg[:200]
			}
		}
	}()
	f()
	return
}

// Show renders a value for messages and case descriptions.
func Show(v any) string {
	switch tv := v.(type) {
	case nil:
		return "nil"
	case string:
		return fmt.Sprintf("%q", tv)
	case stackage.Stack:
		if !tv.IsInit() {
			return "Stack{}"
		}
		return fmt.Sprintf("Stack<%s#%d>", tv.Kind(), tv.Len())
	case stackage.Condition:
		if !tv.IsInit() {
			return "Condition{}"
		}
		return "Condition<" + tv.Keyword() + ">"
	case error:
		return "error(" + tv.Error() + ")"
	}
	s := fmt.Sprintf("%T(%v)", v, v)
	if len(s) > 80 {
		s = s[:80] + "…"
	}
	return strings.ReplaceAll(s, "\n", " ")
}

// knownStack / knownCond recognise the Stack and Condition forms the generators produce without calling into the library.
func knownStack(v any) (stackage.Stack, bool) {
	switch tv := v.(type) {
	case stackage.Stack:
		return tv, true
	case *stackage.Stack:
		if tv != nil {
			return *tv, true
		}
	case AStack:
		return stackage.Stack(tv), true
	case *AStack:
		if tv != nil {
			return stackage.Stack(*tv), true
		}
	case SStack:
		return stackage.Stack(tv), true
	case *SStack:
		if tv != nil {
			return stackage.Stack(*tv), true
		}
	case XStack:
		return stackage.Stack(tv), true
	case *XStack:
		if tv != nil {
			return stackage.Stack(*tv), true
		}
	}
	return stackage.Stack{}, false
}

func knownCond(v any) (stackage.Condition, bool) {
	switch tv := v.(type) {
	case stackage.Condition:
		return tv, true
	case *stackage.Condition:
		if tv != nil {
			return *tv, true
		}
	case ACond:
		return stackage.Condition(tv), true
	case *ACond:
		if tv != nil {
			return stackage.Condition(*tv), true
		}
	case SCond:
		return stackage.Condition(tv), true
	case *SCond:
		if tv != nil {
			return stackage.Condition(*tv), true
		}
	case XCond:
		return stackage.Condition(tv), true
	case *XCond:
		if tv != nil {
			return stackage.Condition(*tv), true
		}
	}
	return stackage.Condition{}, false
}

// AsStack / AsCond are the harness's own converters (written from the documented behaviour of ConvertStack /
// ConvertCondition: a native value is returned as it is; otherwise pointers are followed to any depth, a value whose
// type converts to Stack / Condition is converted, and a zero one does not count). The reference models use these, never
// the library's converters: whatever the library remembers between calls cannot leak into the oracle, and C12 compares
// the two on every form.
func AsStack(v any) (stackage.Stack, bool) {
	if v == nil {
		return stackage.Stack{}, false
	}
	if s, ok := v.(stackage.Stack); ok {
		return s, true
	}
	rv := reflect.ValueOf(v)
	for rv.Kind() == reflect.Ptr {
		if rv.IsNil() {
			return stackage.Stack{}, false
		}
		rv = rv.Elem()
	}
	if !rv.IsValid() || !rv.Type().ConvertibleTo(tStack) {
		return stackage.Stack{}, false
	}
	s, ok := rv.Convert(tStack).Interface().(stackage.Stack)
	if !ok || s.IsZero() {
		return stackage.Stack{}, false
	}
	return s, true
}

func AsCond(v any) (stackage.Condition, bool) {
	if v == nil {
		return stackage.Condition{}, false
	}
	if c, ok := v.(stackage.Condition); ok {
		return c, true
	}
	rv := reflect.ValueOf(v)
	for rv.Kind() == reflect.Ptr {
		if rv.IsNil() {
			return stackage.Condition{}, false
		}
		rv = rv.Elem()
	}
	if !rv.IsValid() || !rv.Type().ConvertibleTo(tCond) {
		return stackage.Condition{}, false
	}
	c, ok := rv.Convert(tCond).Interface().(stackage.Condition)
	if !ok || c.IsZero() {
		return stackage.Condition{}, false
	}
	return c, true
}
