package mon

import (
	"fmt"
	"math"
	"strings"

	stackage "github.com/JesseCoretta/go-stackage"
)

// ListModel is the sequential reference model of a Stack's content (C01, C03, C10, C13).
type ListModel struct {
	Items []any
	Cap   int // 0 = unlimited
	Fifo  bool
	Neg   bool
	Fwd   bool
}

func (m *ListModel) Clone() *ListModel {
	c := *m
	c.Items = append([]any{}, m.Items...)
	return &c
}

func (m *ListModel) Len() int { return len(m.Items) }

func (m *ListModel) Full() bool { return m.Cap > 0 && len(m.Items) >= m.Cap }

// Resolve translates a user index into a position, following the documented Index rules.
func (m *ListModel) Resolve(i int) (int, bool) {
	L := len(m.Items)
	if L == 0 {
		return 0, false
	}
	if i < 0 {
		// -k addresses the k-th element from the end, 1<=k<=L (beware of MinInt)
		if m.Neg && i >= -L {
			return L + i, true
		}
		return 0, false
	}
	if i > L-1 {
		if m.Fwd {
			return L - 1, true
		}
		return 0, false
	}
	return i, true
}

// Index returns what Stack.Index must return.
func (m *ListModel) Index(i int) (any, bool) {
	if p, ok := m.Resolve(i); ok {
		return m.Items[p], m.Items[p] != nil
	}
	return nil, false
}

// Push appends the values while room remains; returns how many were stored.
func (m *ListModel) Push(vals ...any) int {
	n := 0
	for _, v := range vals {
		if m.Full() {
			continue
		}
		m.Items = append(m.Items, v)
		n++
	}
	return n
}

func (m *ListModel) Pop() (any, bool) {
	if len(m.Items) == 0 {
		return nil, false
	}
	var v any
	if m.Fifo {
		v = m.Items[0]
		m.Items = append([]any{}, m.Items[1:]...)
	} else {
		v = m.Items[len(m.Items)-1]
		m.Items = m.Items[:len(m.Items)-1]
	}
	return v, v != nil
}

func (m *ListModel) Insert(x any, left int) bool {
	if x == nil || m.Full() {
		return false
	}
	if left < 0 {
		left = 0
	}
	if left > len(m.Items) {
		left = len(m.Items)
	}
	n := make([]any, 0, len(m.Items)+1)
	n = append(n, m.Items[:left]...)
	n = append(n, x)
	n = append(n, m.Items[left:]...)
	m.Items = n
	return true
}

func (m *ListModel) RemoveAt(p int) any {
	v := m.Items[p]
	n := make([]any, 0, len(m.Items))
	n = append(n, m.Items[:p]...)
	n = append(n, m.Items[p+1:]...)
	m.Items = n
	return v
}

func (m *ListModel) Replace(x any, i int) bool {
	if x == nil || i < 0 || i >= len(m.Items) {
		return false
	}
	m.Items[i] = x
	return true
}

func (m *ListModel) Swap(i, j int) bool {
	if i < 0 || j < 0 || i >= len(m.Items) || j >= len(m.Items) {
		return false
	}
	m.Items[i], m.Items[j] = m.Items[j], m.Items[i]
	return true
}

func (m *ListModel) Reverse() {
	for i, j := 0, len(m.Items)-1; i < j; i, j = i+1, j-1 {
		m.Items[i], m.Items[j] = m.Items[j], m.Items[i]
	}
}

func (m *ListModel) Reset() { m.Items = m.Items[:0] }

func (m *ListModel) String() string {
	var b strings.Builder
	b.WriteByte('[')
	for i, v := range m.Items {
		if i > 0 {
			b.WriteByte(' ')
		}
		b.WriteString(Show(v))
	}
	b.WriteByte(']')
	return b.String()
}

// ---------------------------------------------------------------- stack configurations

// Kinds of stacks, in a fixed order.
var Kinds = []string{"AND", "OR", "NOT", "LIST", "BASIC"}

// LeftErrStart: stacks made by ListCfg.Build start with a recorded error (set per case by the driver hook; single-goroutine
// monitors only).
var LeftErrStart bool

// PastSpell: stacks made by NewStack have held values before and are empty again (0: fresh).
var PastSpell int

// CapSpell selects how "no capacity" is spelled by NewStack (set per case by the driver hook).
var CapSpell int
var capSpellN int

// NewStack creates a stack of the named kind; capacity 0 means "no capacity".
func NewStack(kind string, capacity int) stackage.Stack {
	var c []int
	if capacity != 0 {
		c = []int{capacity}
	} else {
		// "no capacity" has several spellings: no argument at all, or an argument that is not a positive number
		switch CapSpell {
		case 2:
			c = []int{0}
		case 3:
			c = []int{-1}
		case 4:
			c = []int{-2}
		case 5:
			c = []int{[]int{-7, -65536, math.MinInt, math.MinInt + 1}[capSpellN%4]}
		}
	}
	var kept stackage.Stack
	if PastSpell == 4 {
		// just before, some other variable holding some other stack was released while a copy of the handle is kept
		t := stackage.Basic(3).Push("kept-1").SetID("kept")
		kept = t
		t.Free()
	}
	s := NewStackArgs(kind, c...)
	if PastSpell == 4 {
		// ... and the kept handle goes on being used: it is an instance of its own, whatever was constructed since
		kept.SetFIFO(true)
		kept.SetNegativeIndices(true)
		kept.SetNoPadding(true)
		kept.Push("kept-2")
		v0, _ := kept.Index(0)
		if kept.Len() != 2 || v0 != "kept-1" || kept.ID() != "kept" || kept.Cap() != 3 || kept.Kind() != "BASIC" {
			panic(fmt.Sprintf("freed-sibling: a handle kept from before Free was called on another variable holding the same stack reads Len=%d Index(0)=%v ID=%q Cap=%d Kind=%s after a new stack was constructed", kept.Len(), v0, kept.ID(), kept.Cap(), kept.Kind()))
		}
	}
	switch PastSpell {
	case 1:
		// an instance with a past: it has held values before, and was emptied again (Reset keeps everything but content)
		s.Push("past", 7, nil, "gone")
		s.Reset()
	case 2:
		s.Push("past", 7)
		s.Pop()
		s.Pop()
	case 3:
		s.Push("past")
		s.Remove(0)
		s.Insert("past-too", 0)
		s.Reset()
	}
	if AutoMutex {
		s.SetMutex()
	}
	return s
}

// NewStackArgs creates a stack of the named kind with the literal constructor arguments.
func NewStackArgs(kind string, c ...int) stackage.Stack {
	switch kind {
	case "AND":
		return stackage.And(c...)
	case "OR":
		return stackage.Or(c...)
	case "NOT":
		return stackage.Not(c...)
	case "LIST":
		return stackage.List(c...)
	}
	return stackage.Basic(c...)
}

// ListCfg is a content-relevant configuration.
type ListCfg struct {
	Kind string `json:"kind"`
	Cap  int    `json:"cap"`
	Fifo bool   `json:"fifo"`
	Neg  bool   `json:"neg"`
	Fwd  bool   `json:"fwd"`
}

func (c ListCfg) String() string {
	return fmt.Sprintf("%s cap=%d fifo=%v neg=%v fwd=%v", c.Kind, c.Cap, c.Fifo, c.Neg, c.Fwd)
}

func (c ListCfg) Build() (stackage.Stack, *ListModel) {
	s := NewStack(c.Kind, c.Cap)
	if c.Fifo {
		s.SetFIFO(true)
	}
	if c.Neg {
		s.SetNegativeIndices(true)
	}
	if c.Fwd {
		s.SetForwardIndices(true)
	}
	if LeftErrStart {
		s.SetErr(errPolicyRejects) // an error some earlier call left behind: says nothing about content or capacity
	}
	m := &ListModel{Cap: c.Cap, Fifo: c.Fifo, Neg: c.Neg, Fwd: c.Fwd}
	if m.Cap < 0 {
		m.Cap = 0
	}
	return s, m
}

// ObserveList compares every content observer of s with the model; returns "" or (aspect, detail).
func ObserveList(s stackage.Stack, m *ListModel) (aspect, detail string) {
	L := len(m.Items)
	if got := s.Len(); got != L {
		return "Len", fmt.Sprintf("Len()=%d, model %d %s", got, L, m)
	}
	if got := s.IsEmpty(); got != (L == 0) {
		return "IsEmpty", fmt.Sprintf("IsEmpty()=%v with Len %d", got, L)
	}
	probe := func(i int) (string, string) {
		gv, gok := s.Index(i)
		wv, wok := m.Index(i)
		if gok != wok || !SameValue(gv, wv) {
			return "Index", fmt.Sprintf("Index(%d)=(%s,%v), model (%s,%v) %s", i, Show(gv), gok, Show(wv), wok, m)
		}
		return "", ""
	}
	for i := 0; i < L; i++ {
		if a, d := probe(i); a != "" {
			return a, d
		}
	}
	for _, i := range []int{-1, -L, -L - 1, L, L + 5} {
		if a, d := probe(i); a != "" {
			return a, d
		}
	}
	// Front / Back: the relevant end, or — when that end holds nil — either (nil,false) or the nearest non-nil element.
	end := func(fromRight bool) (strict any, strictOK bool, near any, nearOK bool) {
		if L == 0 {
			return nil, false, nil, false
		}
		if fromRight {
			strict = m.Items[L-1]
			for i := L - 1; i >= 0; i-- {
				if m.Items[i] != nil {
					near, nearOK = m.Items[i], true
					break
				}
			}
		} else {
			strict = m.Items[0]
			for i := 0; i < L; i++ {
				if m.Items[i] != nil {
					near, nearOK = m.Items[i], true
					break
				}
			}
		}
		return strict, strict != nil, near, nearOK
	}
	check := func(name string, gv any, gok bool, fromRight bool) (string, string) {
		sv, sok, nv, nok := end(fromRight)
		if gok == sok && SameValue(gv, sv) {
			return "", ""
		}
		if !sok && gok == nok && SameValue(gv, nv) {
			return "", ""
		}
		return name, fmt.Sprintf("%s()=(%s,%v), model end (%s,%v) %s fifo=%v", name, Show(gv), gok, Show(sv), sok, m, m.Fifo)
	}
	fv, fok := s.Front()
	if a, d := check("Front", fv, fok, !m.Fifo); a != "" {
		return a, d
	}
	bv, bok := s.Back()
	if a, d := check("Back", bv, bok, m.Fifo); a != "" {
		return a, d
	}
	// capacity arithmetic
	if s.CapReached() != s.IsFull() {
		return "Cap", fmt.Sprintf("IsFull()=%v but its deprecated spelling CapReached()=%v (cap %d len %d)", s.IsFull(), s.CapReached(), m.Cap, L)
	}
	if m.Cap > 0 {
		if s.Cap() != m.Cap || s.Avail() != m.Cap-L || s.IsFull() != (L == m.Cap) {
			return "Cap", fmt.Sprintf("Cap()=%d Avail()=%d IsFull()=%v with cap %d len %d", s.Cap(), s.Avail(), s.IsFull(), m.Cap, L)
		}
		if L > m.Cap {
			return "Cap", fmt.Sprintf("Len %d exceeds capacity %d", L, m.Cap)
		}
	} else if s.Cap() != -1 || s.Avail() != -1 || s.IsFull() {
		return "Cap", fmt.Sprintf("no capacity: Cap()=%d Avail()=%d IsFull()=%v", s.Cap(), s.Avail(), s.IsFull())
	}
	return "", ""
}

// ---------------------------------------------------------------- list operations

// Symbolic indices, resolved against the current length when the op is applied.
const (
	IdxLast = -1000001 // Len-1
	IdxMid  = -1000002 // Len/2
	IdxEnd  = -1000003 // Len (one past the end)
)

// LOp is one content operation.
type LOp struct {
	K    string // Push Pop Insert Remove Replace Swap Reverse Reset SetFIFO
	Vals []any
	I, J int
}

func resolveIdx(i, L int) int {
	switch i {
	case IdxLast:
		return L - 1
	case IdxMid:
		return L / 2
	case IdxEnd:
		return L
	}
	return i
}

// Resolve replaces symbolic indices by literals for a stack of length L.
func (o LOp) Resolve(L int) LOp {
	o.I, o.J = resolveIdx(o.I, L), resolveIdx(o.J, L)
	return o
}

func (o LOp) String() string {
	switch o.K {
	case "Push":
		var p []string
		for _, v := range o.Vals {
			p = append(p, Show(v))
		}
		return "Push(" + strings.Join(p, ",") + ")"
	case "Insert", "Replace":
		return fmt.Sprintf("%s(%s,%d)", o.K, Show(o.Vals[0]), o.I)
	case "Remove":
		return fmt.Sprintf("Remove(%d)", o.I)
	case "Swap":
		return fmt.Sprintf("Swap(%d,%d)", o.I, o.J)
	}
	return o.K + "()"
}

// ApplyLOp applies a (resolved) op to the real stack and the model and compares the return values.
func ApplyLOp(s stackage.Stack, m *ListModel, o LOp) (aspect, detail string) {
	switch o.K {
	case "Push":
		s.Push(o.Vals...)
		m.Push(o.Vals...)
	case "Pop":
		gv, gok := s.Pop()
		wv, wok := m.Pop()
		if gok != wok || !SameValue(gv, wv) {
			return "return", fmt.Sprintf("Pop()=(%s,%v), model (%s,%v)", Show(gv), gok, Show(wv), wok)
		}
	case "Insert":
		g := s.Insert(o.Vals[0], o.I)
		w := m.Insert(o.Vals[0], o.I)
		if g != w {
			return "return", fmt.Sprintf("%s=%v, model %v", o, g, w)
		}
	case "Remove":
		before := m.Len()
		gv, gok := s.Remove(o.I)
		p, ok := m.Resolve(o.I)
		switch {
		case !ok:
			if gok || gv != nil {
				return "return", fmt.Sprintf("%s=(%s,%v) but the index addresses nothing", o, Show(gv), gok)
			}
		case m.Items[p] == nil:
			// a nil slot: the call must report failure; it may or may not have removed the slot
			if gok || gv != nil {
				return "return", fmt.Sprintf("%s=(%s,%v) on a nil slot", o, Show(gv), gok)
			}
			if s.Len() == before-1 {
				m.RemoveAt(p)
			}
		default:
			wv := m.RemoveAt(p)
			if !gok || !SameValue(gv, wv) {
				return "return", fmt.Sprintf("%s=(%s,%v), model (%s,true)", o, Show(gv), gok, Show(wv))
			}
		}
	case "Replace":
		g := s.Replace(o.Vals[0], o.I)
		w := m.Replace(o.Vals[0], o.I)
		if g != w {
			return "return", fmt.Sprintf("%s=%v, model %v", o, g, w)
		}
	case "Swap":
		s.Swap(o.I, o.J)
		m.Swap(o.I, o.J)
	case "Reverse":
		s.Reverse()
		m.Reverse()
	case "Reset":
		b, _ := stackage.VerifDump(s)
		s.Reset()
		a, _ := stackage.VerifDump(s)
		m.Reset()
		if d := CfgDiff(b, a, 0); d != "" {
			return "config", "Reset changed the configuration: " + d
		}
		if !a.Slot0Cfg {
			return "config", "Reset lost the configuration slot"
		}
	case "SetFIFO":
		s.SetFIFO(true)
		m.Fifo = true
		if !s.IsFIFO() {
			return "return", "IsFIFO()=false after SetFIFO(true)"
		}
	}
	return "", ""
}
