package mon

import (
	"fmt"
	"strings"

	stackage "github.com/JesseCoretta/go-stackage"
	"verifharness/core"
)

// C16 — Marshal accepts or rejects any input without panicking.

var c16Labels = []string{"AND", "OR", "NOT", "LIST", "BASIC", "CONDITION"}

func randCase(r *core.Rng, s string) string {
	b := []byte(s)
	for i := range b {
		if r.Bool() {
			b[i] = strings.ToLower(string(b[i]))[0]
		}
	}
	return string(b)
}

func c16Scalar(r *core.Rng) any {
	switch r.Intn(30) {
	case 0:
		return nil
	case 1:
		return (*int)(nil)
	case 2:
		return (*stackage.Stack)(nil)
	case 3:
		return r.Intn(100)
	case 4:
		return float64(r.Intn(100)) / 4
	case 5:
		return r.Bool()
	case 6:
		return stackage.ComparisonOperator(1 + r.Intn(6))
	case 7:
		return stackage.ComparisonOperator(r.Intn(3) * 100)
	case 8:
		return UserOp{"~=", "ctx"}
	case 9:
		return UserOp{"", ""}
	case 10:
		return stackage.And().Push("ready", r.Intn(9))
	case 11:
		return stackage.Cond("rk", stackage.Eq, "rv")
	case 12:
		return stackage.Stack{}
	case 13:
		return stackage.Condition{}
	case 14:
		return randCase(r, c16Labels[r.Intn(len(c16Labels))]) // a label in element position
	case 15:
		return []string{"AN", "ANDX", "CONDITIO", " AND", "LISTS", "", "nil"}[r.Intn(7)] // near-labels
	case 16:
		return AStack(stackage.Or().Push("al"))
	case 17:
		return []string{"a", "b"}
	case 18:
		return map[string]any{"k": nil}
	case 19:
		return (*stackage.ComparisonOperator)(nil) // a typed nil pointer that satisfies the Operator interface
	case 20:
		return (*UserOp)(nil)
	case 21:
		return (*stackage.Condition)(nil)
	case 22:
		return (*ACond)(nil)
	case 23:
		a := AStack(stackage.Or().Push("pa"))
		return &a
	case 24:
		return (*AStack)(nil)
	case 25:
		a := ACond(stackage.Cond("pk", stackage.Eq, "pv"))
		return &a
	case 26:
		// values of uncomparable struct types (comparing two of them with == panics at run time)
		switch r.Intn(3) {
		case 0:
			return struct{ L []int }{[]int{1, r.Intn(5)}}
		case 1:
			switch r.Intn(4) {
			case 0:
				return ArrayOp{"=~", "array"}
			case 1:
				return MapOp{"s": "~", "c": "map"}
			case 2:
				return MapOp(nil)
			}
			return SliceOp{Txt: "~~", Ctx: "ctx", Tags: []string{"t"}}
		}
		return IfaceStruct{Name: "n", Any: map[string]int{"k": 1}}
	case 27:
		// values at the far end of (or missing from) a long chain of pointers
		d := []int{2, 8, 9, 12, 64, 65, 300}[r.Intn(7)]
		switch r.Intn(4) {
		case 0:
			return DeepNil(d)
		case 1:
			return DeepPtr(r.Intn(9), d)
		case 2:
			return DeepPtr(stackage.Or().Push("deep"), d)
		}
		return DeepPtr(ACond(stackage.Cond("dk", stackage.Eq, "dv")), d)
	}
	return fmt.Sprintf("junk%d", r.Intn(50))
}

// ArrayOp is an Operator whose underlying kind is an array.
type ArrayOp [2]string

func (o ArrayOp) String() string  { return o[0] }
func (o ArrayOp) Context() string { return o[1] }

// MapOp / FuncOp: Operators whose underlying kinds are a map and a func.
type MapOp map[string]string

func (o MapOp) String() string  { return o["s"] }
func (o MapOp) Context() string { return o["c"] }

// SliceOp is an Operator whose struct type is not comparable.
type SliceOp struct {
	Txt, Ctx string
	Tags     []string
}

func (o SliceOp) String() string  { return o.Txt }
func (o SliceOp) Context() string { return o.Ctx }

// c16Row draws a []any: a labelled stack row, a CONDITION row of any arity, pure junk, or an envelope chain.
func c16Row(r *core.Rng, depth int) []any {
	switch r.Intn(10) {
	case 0: // empty
		return []any{}
	case 1: // envelope chain around something
		inner := c16Row(r, depth-1)
		for i, n := 0, r.Range(1, 3); i < n; i++ {
			inner = []any{inner}
		}
		return inner
	case 2, 3: // CONDITION row with 0..5 fields after the label
		row := []any{randCase(r, "CONDITION")}
		n := r.Range(0, 5)
		for i := 0; i < n; i++ {
			switch {
			case i == 0 && r.Chance(3, 4):
				row = append(row, fmt.Sprintf("kw%d", r.Intn(9)))
			case i == 1 && r.Chance(1, 12):
				row = append(row, (*stackage.ComparisonOperator)(nil))
			case i == 1 && r.Chance(1, 8):
				// user-defined operators of unusual underlying kinds
				row = append(row, []any{ArrayOp{"=~", "array"}, MapOp{"s": "~", "c": "map"}, MapOp(nil), SliceOp{Txt: "~~", Ctx: "ctx", Tags: []string{"t"}}, UserOp{"~=", "ctx"}}[r.Intn(5)])
			case i == 1 && r.Chance(2, 3):
				row = append(row, stackage.ComparisonOperator(1+r.Intn(6)))
			case i == 2 && depth > 0 && r.Chance(1, 3):
				row = append(row, c16Row(r, depth-1))
			default:
				row = append(row, c16Scalar(r))
			}
		}
		return row
	case 4: // junk without a label
		row := []any{}
		for i, n := 0, r.Range(1, 5); i < n; i++ {
			if depth > 0 && r.Chance(1, 4) {
				row = append(row, c16Row(r, depth-1))
			} else {
				row = append(row, c16Scalar(r))
			}
		}
		return row
	}
	row := []any{randCase(r, c16Labels[r.Intn(5)])}
	if r.Chance(1, 10) {
		// first elements that merely begin like a label
		row[0] = []string{"Conditions", "CONDITIONAL", "condition:", "conditionconditioncondition", "ANDROMEDA", "ORacle", "NOTE", "LISTING", "BASICS", "Conditio",
			"L\u0130ST", "l\u0130st", "COND\u0130T\u0130ON", "BAS\u0130C", "\u00c4ND"}[r.Intn(15)] // (incl. spellings whose upper and lower case forms are not each other's)
	}
	width := r.Range(0, 5)
	if r.Chance(1, 12) {
		width = r.Range(15, 40) // a wide row
		if r.Bool() {
			row[0] = "no-such-label"
		}
	}
	for i, n := 0, width; i < n; i++ {
		if depth > 0 && r.Chance(2, 5) {
			sub := c16Row(r, depth-1)
			row = append(row, sub)
			if r.Chance(1, 6) {
				row = append(row, sub) // the very same row instance a second time (acyclic all the same)
			}
		} else {
			row = append(row, c16Scalar(r))
		}
	}
	return row
}

func showJunk(v any, depth int) string {
	if row, ok := v.([]any); ok {
		if depth > 5 {
			return "[…]"
		}
		var p []string
		for _, e := range row {
			p = append(p, showJunk(e, depth+1))
		}
		return "[" + strings.Join(p, " ") + "]"
	}
	return Show(v)
}

func hasMalformed(v any, below bool) bool {
	row, ok := v.([]any)
	if !ok {
		return false
	}
	if below && len(row) == 0 {
		return true
	}
	if len(row) > 0 {
		if s, ok := row[0].(string); ok && strings.EqualFold(s, "CONDITION") {
			if len(row) != 4 {
				return true
			}
			if _, isOp := row[2].(stackage.Operator); !isOp {
				return true
			}
		}
	}
	for _, e := range row {
		if hasMalformed(e, true) {
			return true
		}
	}
	return false
}

// strip single-element envelopes the way the statement describes ("empty or single-element envelopes")
func stripEnvelopes(in []any) []any {
	for len(in) == 1 {
		inner, ok := in[0].([]any)
		if !ok {
			break
		}
		in = inner
	}
	return in
}

// marshalBattery: the observers named by the statement on a receiver that Marshal initialised.
func marshalBattery(s stackage.Stack) (where, msg, site string) {
	steps := []struct {
		n string
		f func()
	}{
		{"String", func() { _ = s.String() }},
		{"Unmarshal", func() { s.Unmarshal() }},
		{"IsEqual", func() {
			t := NewStack(s.Kind(), 0)
			sn, _ := stackage.VerifDump(s)
			t.Push(sn.Slots...)
			s.IsEqual(t)
			t.IsEqual(s)
		}},
		{"Len/Kind/Index", func() {
			s.Kind()
			for i := 0; i < s.Len(); i++ {
				s.Index(i)
			}
		}},
	}
	for _, st := range steps {
		if p, m, si := Guard(st.f); p {
			return st.n, m, si
		}
	}
	return "", "", ""
}

func c16Tier(tier string) int {
	if tier == "thorough" {
		return 20000000
	}
	return 400000
}

func c16Run(c *core.Ctx, idx int) {
	r := c.Rng
	var in []any
	mutated := false
	if idx%5 == 4 {
		// mutation of a valid Unmarshal output: drop / duplicate / retype one entry
		tree := c04Gen.Gen(r)
		u, _ := tree.BuildStack().Unmarshal()
		in = mutateJunk(r, u)
		mutated = true
		c.Count("inputs.mutated-unmarshal-output")
	} else {
		in = c16Row(r, 3)
		c.Count("inputs.grammar")
	}
	shown := showJunk(in, 0)
	if len(shown) > 700 {
		shown = shown[:700] + "…"
	}
	malformed := hasMalformed(in, false)
	for mode := 0; mode < 4; mode++ {
		// 0: zero receiver, variadic; 1: zero receiver, single slice argument; 2/3: initialised receiver
		var recv stackage.Stack
		before := 0
		if mode >= 2 {
			recv = stackage.And().Push("pre-existing")
			before = 1
			if AutoMutex || idx%7 == 3 {
				recv.SetMutex() // (the process-wide lock watcher turns a re-acquired lock into a reported panic)
			}
			switch idx % 11 {
			case 2:
				recv.SetMarshaler(nil) // every spelling of "no closure of my own" leaves the built-in decoder in charge
			case 5:
				recv.SetMarshaler(stackage.Marshaler(nil))
			case 7:
				recv.SetMarshaler()
			case 9:
				recv.SetMarshaler(func(...any) error { return nil })
				recv.SetMarshaler(nil)
			}
		}
		var err error
		call := func() {
			if mode%2 == 0 {
				err = recv.Marshal(in...)
			} else {
				err = recv.Marshal(in)
			}
		}
		desc := map[string]any{"input": shown, "mode": []string{"zero-receiver,variadic", "zero-receiver,one-slice", "live-receiver,variadic", "live-receiver,one-slice"}[mode]}
		if p, msg, site := Guard(call); p {
			c.Violatef("panic:"+site, desc, "Marshal panicked (%s): %s on %s", site, msg, shown)
			return
		}
		c.Count("marshal-calls")
		if err == nil && !recv.IsInit() {
			c.Violatef("nil-error-uninitialised-receiver", desc, "Marshal returned nil but left the receiver uninitialised: %s", shown)
			return
		}
		if err != nil {
			c.Count("outcome.error")
			// "an unrecognised first element yields a BASIC stack holding all entries": a flat row (no nested rows that
			// could be malformed in their own right) that starts with a string which is no label cannot be refused
			if eff0 := stripEnvelopes(in); len(eff0) > 0 {
				if lab, isStr := eff0[0].(string); isStr {
					flat := true
					for _, e := range eff0 {
						if _, nested := e.([]any); nested {
							flat = false
						}
					}
					switch strings.ToUpper(lab) {
					case "AND", "OR", "NOT", "LIST", "BASIC", "CONDITION":
					default:
						if flat {
							c.Violatef("unrecognised-label-refused", desc, "Marshal returned %v for a flat row whose first element %q is no label (expected a BASIC stack of its %d entries): %s", err, lab, len(eff0), shown)
							return
						}
					}
				}
			}
		} else {
			c.Count("outcome.decoded")
		}
		if !recv.IsInit() {
			continue
		}
		if w, msg, site := marshalBattery(recv); w != "" {
			c.Violatef("unusable-after:"+site, desc, "after Marshal, %s panicked (%s): %s; input %s", w, site, msg, shown)
			return
		}
		eff := stripEnvelopes(in)
		if mode >= 2 {
			if err == nil && recv.Len() == before+1 {
				// the new element is the decoded, initialised Stack or Condition
				ne, _ := recv.Index(before)
				okNew := false
				if ds, isS := AsStack(ne); isS && ds.IsInit() {
					okNew = true
				} else if dc, isC := AsCond(ne); isC && dc.IsInit() {
					okNew = true
				}
				if !okNew {
					c.Violatef("live-receiver-element", desc, "a successful Marshal into a live receiver stored %s, not a decoded Stack or Condition: %s", Show(ne), shown)
					return
				}
				// ... and it is the decoding of THIS row: a stack of the labelled kind holding the row's entries, a BASIC
				// stack of all entries under an unrecognised first element, a Condition for a CONDITION row
				if len(eff) > 0 {
					if lab, isStr := eff[0].(string); isStr {
						ds, isS := AsStack(ne)
						up := strings.ToUpper(lab)
						switch up {
						case "AND", "OR", "NOT", "LIST", "BASIC":
							if !isS || ds.Kind() != up || ds.Len() != len(eff)-1 {
								c.Violatef("live-receiver-element", desc, "Marshal of a %q row into a live receiver stored %s (expected a %s stack of %d entries): %s", lab, Show(ne), up, len(eff)-1, shown)
								return
							}
						case "CONDITION":
							if _, isC := AsCond(ne); !isC {
								c.Violatef("live-receiver-element", desc, "Marshal of a CONDITION row into a live receiver stored %s: %s", Show(ne), shown)
								return
							}
						default:
							if !isS || ds.Kind() != "BASIC" || ds.Len() != len(eff) {
								c.Violatef("live-receiver-element", desc, "Marshal of a row whose first element %q is no label into a live receiver stored %s (expected a BASIC stack of %d entries): %s", lab, Show(ne), len(eff), shown)
								return
							}
						}
					}
				}
			}
			if err == nil && recv.Len() != before+1 {
				c.Violatef("live-receiver-growth", desc, "live receiver went from %d to %d elements on a successful Marshal of %s", before, recv.Len(), shown)
				return
			}
			if recv.Len() > before+1 || recv.Len() < before {
				c.Violatef("live-receiver-growth", desc, "live receiver went from %d to %d elements: %s", before, recv.Len(), shown)
				return
			}
			continue
		}
		// zero receiver now initialised: it is a live receiver from here on, so one more Marshal adds one more element
		if err == nil {
			n0 := recv.Len()
			var err2 error
			if p, msg, site := Guard(func() { err2 = recv.Marshal("OR", "second", "call") }); p {
				c.Violatef("panic:"+site+":second-marshal", desc, "a second Marshal into the decoded receiver panicked: %s", msg)
				return
			}
			if err2 != nil || recv.Len() != n0+1 {
				c.Violatef("decoded-receiver-growth", desc, "a second Marshal (an OR row) into the receiver decoded from %s returned %v and took it from %d to %d elements", shown, err2, n0, recv.Len())
				return
			}
			recv.Pop()
			c.Count("second-marshal-into-decoded-receiver")
		}
		if len(eff) > 0 {
			if lab, ok := eff[0].(string); ok {
				up := strings.ToUpper(lab)
				switch up {
				case "AND", "OR", "NOT", "LIST", "BASIC":
					if recv.Kind() != up || recv.Len() != len(eff)-1 {
						c.Violatef("label-not-honoured", desc, "label %q gave a %s of %d elements (expected %s of %d): %s", lab, recv.Kind(), recv.Len(), up, len(eff)-1, shown)
						return
					}
					if d := c16Entries(recv, eff[1:]); d != "" {
						c.Violatef("entries-misplaced", desc, "%s; input %s", d, shown)
						return
					}
					c.Count("label-honoured")
				case "CONDITION":
				default:
					if recv.Kind() != "BASIC" || recv.Len() != len(eff) {
						c.Violatef("unrecognised-label", desc, "unrecognised first element %q gave a %s of %d elements (expected BASIC of %d): %s", lab, recv.Kind(), recv.Len(), len(eff), shown)
						return
					}
					if d := c16Entries(recv, eff); d != "" {
						c.Violatef("entries-misplaced", desc, "%s; input %s", d, shown)
						return
					}
					c.Count("unrecognised-label-basic")
				}
			}
		}
	}
	if malformed || mutated {
		c.NontrivialStr(shown)
		c.Count("inputs.malformed-row-or-empty-envelope")
	}
	if c.WantSample() && malformed && idx%977 == 3 {
		c.Sample(shown)
	}
}

// c16Entries: every entry that is not a nested []any must sit, unchanged, at its own position; a nested []any is
// either decoded in place (Stack / Condition) or left as it was.
func c16Entries(recv stackage.Stack, want []any) string {
	sn, _ := stackage.VerifDump(recv)
	if len(sn.Slots) != len(want) {
		return fmt.Sprintf("%d slots for %d entries", len(sn.Slots), len(want))
	}
	for i, w := range want {
		g := sn.Slots[i]
		if _, nested := w.([]any); nested {
			_, isS := AsStack(g)
			_, isC := AsCond(g)
			_, raw := g.([]any)
			if !isS && !isC && !raw {
				return fmt.Sprintf("position %d holds %s where a nested row was given", i, Show(g))
			}
			continue
		}
		if !SameValue(g, w) {
			return fmt.Sprintf("position %d holds %s, the input has %s there", i, Show(g), Show(w))
		}
	}
	// one and the same row given at two positions meets one and the same fate (decoded at both, or left raw at both)
	for i := range want {
		wi, ok := want[i].([]any)
		if !ok || len(wi) == 0 {
			continue
		}
		for j := i + 1; j < len(want); j++ {
			wj, ok := want[j].([]any)
			if !ok || len(wj) != len(wi) || &wj[0] != &wi[0] {
				continue
			}
			_, rawI := sn.Slots[i].([]any)
			_, rawJ := sn.Slots[j].([]any)
			if rawI != rawJ {
				return fmt.Sprintf("the same row was given at positions %d and %d; one was decoded (%s), the other left raw (%s)", i, j, Show(sn.Slots[i]), Show(sn.Slots[j]))
			}
		}
	}
	return ""
}

func mutateJunk(r *core.Rng, u []any) []any {
	out := append([]any{}, u...)
	if len(out) == 0 {
		return out
	}
	i := r.Intn(len(out))
	if row, ok := out[i].([]any); ok && r.Chance(2, 3) {
		out[i] = mutateJunk(r, row)
		return out
	}
	switch r.Intn(4) {
	case 0:
		out = append(out[:i], out[i+1:]...)
	case 1:
		out = append(out[:i+1], out[i:]...)
	case 2:
		out[i] = c16Scalar(r)
	default:
		out[i] = []any{}
	}
	return out
}

func init() {
	core.Register(&core.Monitor{
		ID:    "C16",
		Cases: c16Tier,
		Run:   c16Run,
		Rule: "grammar-based []any inputs of depth <= 4, width <= 6: labelled rows (labels in random case), CONDITION rows with 0..5 fields (missing, surplus, wrongly typed, non-operators in the operator position), junk rows, empty rows, envelope chains of 1..3 levels; " +
			"entries drawn from nil, typed nils, numbers, bools, valid/out-of-range/user-defined/empty operators, ready-made Stacks/Conditions/aliases, zero Stack/Condition, labels and near-labels in element position, junk strings, []string, maps; every fifth input is a valid Unmarshal output with one entry dropped, duplicated, retyped or emptied. " +
			"Each input is marshalled four ways (zero / live receiver x variadic / single slice). Oracle: no panic; err != nil or the receiver is initialised; String/Unmarshal/IsEqual/Len/Kind/Index return normally on it; a recognised label (any case) gives that kind with len(input)-1 elements, an unrecognised string gives BASIC with all entries; a live receiver grows by exactly one on success and never by more. " +
			"non-trivial = input containing a malformed CONDITION row or an empty envelope below the root, or a mutated Unmarshal output; distinct = rendered input.",
		Assumptions: []string{"single-element envelopes are stripped before the label rules are applied", "a non-string first element may be rejected with an error or decoded (statement: 'either reports an error or leaves the receiver an initialised Stack')"},
		Floors: func(string) map[string]int64 {
			return map[string]int64{"marshal-calls": 100000, "outcome.error": 5000, "outcome.decoded": 20000, "label-honoured": 5000, "unrecognised-label-basic": 500, "inputs.malformed-row-or-empty-envelope": 5000}
		},
	})
}
