package mon

import (
	"fmt"
	"strings"
	"sync"

	stackage "github.com/JesseCoretta/go-stackage"
	"verifharness/core"
)

// TNode describes one node of an expression tree; Build() turns a description into fresh live values,
// so the same description can be instantiated several times (independent copies, alias variants ...).
type TNode struct {
	T string `json:"t"` // leaf | nil | stack | cond

	// leaf
	Leaf *LeafDesc `json:"leaf,omitempty"`

	// stack
	Kind     string     `json:"kind,omitempty"`
	Cap      int        `json:"cap,omitempty"`
	Fifo     bool       `json:"fifo,omitempty"`
	Paren    bool       `json:"paren,omitempty"`
	Fold     bool       `json:"fold,omitempty"`
	NoPad    bool       `json:"nopad,omitempty"`
	LeadOnce bool       `json:"lonce,omitempty"`
	Neg      bool       `json:"neg,omitempty"`
	Fwd      bool       `json:"fwd,omitempty"`
	Sym      string     `json:"sym,omitempty"`
	Delim    string     `json:"delim,omitempty"`
	Enc      [][]string `json:"enc,omitempty"`
	Mutex    bool       `json:"mutex,omitempty"`
	VPol     int        `json:"vpol,omitempty"`         // validity policy: 1 pure accepting closure, 2 pure rejecting closure
	NoNest   bool       `json:"nonest_after,omitempty"` // no-nesting switched on AFTER the elements were pushed
	PPol     bool       `json:"ppol,omitempty"`         // pure presentation policy (constant text)
	UPol     bool       `json:"upol,omitempty"`         // pure user Unmarshaler (constant output)
	EPol     int        `json:"epol,omitempty"`         // equality policy: 1 always equal, 2 never equal
	ReadOnly bool       `json:"ro,omitempty"`
	ViaCond  bool       `json:"via_cond,omitempty"` // a Condition assembled by Cond("", op, expr) - which records a complaint - and given its keyword afterwards
	LeftErr  bool       `json:"left_err,omitempty"` // an error left over from an earlier call is recorded in the instance
	Shared   bool       `json:"shared,omitempty"`   // this very node occurs at more than one position: ONE instance is built and stored at each
	Alias    int        `json:"alias,omitempty"`    // 0 native, 1 AStack, 2 *AStack, 3 SStack, 4 *SStack / same for conditions
	Kids     []*TNode   `json:"kids,omitempty"`

	// condition
	Kw   string  `json:"kw,omitempty"`
	Op   *OpDesc `json:"op,omitempty"`
	Expr *TNode  `json:"expr,omitempty"`
}

// LeafDesc describes a primitive leaf value.
type LeafDesc struct {
	Tag string  `json:"tag"` // str int int8 int64 uint uint16 float32 float64 bool
	S   string  `json:"s,omitempty"`
	I   int64   `json:"i,omitempty"`
	F   float64 `json:"f,omitempty"`
	B   bool    `json:"b,omitempty"`
	// composite leaves (C05): element / field / pointee descriptions and map keys
	Elems []*LeafDesc `json:"elems,omitempty"`
	Keys  []string    `json:"keys,omitempty"`
	N     int         `json:"n,omitempty"` // pointer depth
}

func (l *LeafDesc) Clone() *LeafDesc {
	c := *l
	c.Keys = append([]string(nil), l.Keys...)
	c.Elems = nil
	for _, e := range l.Elems {
		c.Elems = append(c.Elems, e.Clone())
	}
	return &c
}

// values of unusual but perfectly legal Go types (all comparable, so that a rebuilt copy equals the first)
type NamedInt int
type NamedBool bool
type NamedStr string
type NamedFloat float64
type PtrPair [2]*int

var ptrPairTarget = 7

func (l *LeafDesc) Build() any {
	switch l.Tag {
	case "complex128":
		return complex(l.F, float64(l.I))
	case "complex64":
		return complex64(complex(l.F, float64(l.I)))
	case "uintptr":
		return uintptr(l.I)
	case "named-int":
		return NamedInt(l.I)
	case "named-bool":
		return NamedBool(l.B)
	case "named-str":
		return NamedStr(l.S)
	case "named-float":
		return NamedFloat(l.F)
	case "rune":
		return rune(l.I)
	case "ptr-pair":
		return PtrPair{&ptrPairTarget, nil} // an array of pointers (one live and shared, one nil)
	case "struct-empty":
		return struct{}{}
	case "cmp-op":
		return stackage.ComparisonOperator(l.I) // an operator constant is a value like any other when it is an element
	case "str":
		return l.S
	case "int":
		return int(l.I)
	case "int8":
		return int8(l.I)
	case "int16":
		return int16(l.I)
	case "int32":
		return int32(l.I)
	case "int64":
		return l.I
	case "uint":
		return uint(l.I)
	case "uint8":
		return uint8(l.I)
	case "uint16":
		return uint16(l.I)
	case "uint32":
		return uint32(l.I)
	case "uint64":
		return uint64(l.I)
	case "float32":
		return float32(l.F)
	case "float64":
		return l.F
	case "bool":
		return l.B
	}
	if f, ok := extraLeaf[l.Tag]; ok {
		return f(l)
	}
	return l.S
}

// extraLeaf lets monitors register further leaf tags.
var extraLeaf = map[string]func(*LeafDesc) any{}

// UserOp is a user-defined Operator.
type UserOp struct{ Txt, Ctx string }

func (o UserOp) String() string  { return o.Txt }
func (o UserOp) Context() string { return o.Ctx }

// OpDesc describes an operator: built-in (Code 1..6, or out of range) or user-defined.
type OpDesc struct {
	Code int    `json:"code,omitempty"`
	User bool   `json:"user,omitempty"`
	Txt  string `json:"txt,omitempty"`
	Ctx  string `json:"ctx,omitempty"`
}

func (o *OpDesc) Build() stackage.Operator {
	if o == nil {
		return nil
	}
	if o.User {
		return UserOp{o.Txt, o.Ctx}
	}
	switch o.Code {
	case 100:
		return EnumOp(0) // operators whose Go zero value is a perfectly good operator
	case 101:
		return UnitOp{}
	case 102:
		return EnumOp(1)
	}
	return stackage.ComparisonOperator(o.Code)
}

func (o *OpDesc) Text() string { return o.Build().String() }

// Build instantiates the description. Stacks/Conditions come back in the form selected by Alias.
func (n *TNode) Build() any {
	if n.Shared && buildMemo != nil {
		if v, ok := buildMemo[n]; ok {
			return v
		}
		v := n.build()
		buildMemo[n] = v
		return v
	}
	return n.build()
}

// one top-level BuildStack / BuildCond call instantiates every Shared node once
var (
	buildMemo  map[*TNode]any
	buildDepth int
)

func buildEnter() {
	if buildDepth == 0 {
		buildMemo = map[*TNode]any{}
	}
	buildDepth++
}

func buildLeave() {
	buildDepth--
	if buildDepth == 0 {
		buildMemo = nil
	}
}

func (n *TNode) build() any {
	switch n.T {
	case "nil":
		return nil
	case "leaf":
		return n.Leaf.Build()
	case "stack":
		s := n.BuildStack()
		switch n.Alias {
		case 1:
			return AStack(s)
		case 2:
			a := AStack(s)
			return &a
		case 3:
			return SStack(s)
		case 4:
			a := SStack(s)
			return &a
		case 5:
			return XStack(s)
		case 6:
			a := XStack(s)
			return &a
		}
		return s
	case "cond":
		c := n.BuildCond()
		switch n.Alias {
		case 1:
			return ACond(c)
		case 2:
			a := ACond(c)
			return &a
		case 3:
			return SCond(c)
		case 4:
			a := SCond(c)
			return &a
		case 5:
			return XCond(c)
		case 6:
			a := XCond(c)
			return &a
		}
		return c
	}
	return nil
}

// BuildStack instantiates a stack node as a native Stack.
func (n *TNode) BuildStack() stackage.Stack {
	buildEnter()
	defer buildLeave()
	s := NewStack(n.Kind, n.Cap)
	if n.Fifo {
		s.SetFIFO(true)
	}
	settings := func() {
		applyOpt(n.Paren, func(b ...bool) { s.SetParen(b...) }, func(b ...bool) { s.Paren(b...) })
		applyOpt(n.Fold, func(b ...bool) { s.SetFold(b...) }, func(b ...bool) { s.Fold(b...) })
		applyOpt(n.NoPad, func(b ...bool) { s.SetNoPadding(b...) }, func(b ...bool) { s.NoPadding(b...) })
		applyOpt(n.LeadOnce, func(b ...bool) { s.SetLeadOnce(b...) }, func(b ...bool) { s.LeadOnce(b...) })
		applyOpt(n.Neg, func(b ...bool) { s.SetNegativeIndices(b...) }, func(b ...bool) { s.NegativeIndices(b...) })
		applyOpt(n.Fwd, func(b ...bool) { s.SetForwardIndices(b...) }, func(b ...bool) { s.ForwardIndices(b...) })
		if n.Sym != "" {
			if BuildStyle%2 == 1 {
				s.Symbol(n.Sym)
			} else {
				s.SetSymbol(n.Sym)
			}
		}
		if n.Delim != "" {
			s.SetDelimiter(n.Delim)
		}
		for _, e := range n.Enc {
			if BuildStyle%2 == 1 {
				s.Encap(append([]string{}, e...))
			} else {
				s.SetEncap(append([]string{}, e...))
			}
		}
	}
	if BuildStyle != 4 {
		settings()
	}
	for _, k := range n.Kids {
		s.Push(k.Build())
	}
	if BuildStyle == 4 {
		settings() // options chosen in the middle of a history: the same configuration in the end
	}
	if n.Mutex {
		if BuildStyle%2 == 1 {
			s.Mutex()
		} else {
			s.SetMutex()
		}
	}
	if n.NoNest {
		s.SetNoNesting(true)
	}
	if n.LeftErr {
		s.SetErr(errPolicyRejects)
	}
	if n.PPol {
		s.SetPresentationPolicy(func(...any) string { return "<presented>" })
	}
	switch n.VPol {
	case 1:
		s.SetValidityPolicy(func(...any) error { return nil })
	case 2:
		s.SetValidityPolicy(func(...any) error { return errPolicyRejects })
	}
	if n.UPol {
		s.SetUnmarshaler(func(...any) ([]any, error) { return []any{"<unmarshaled by the user's closure>"}, nil })
	}
	switch n.EPol {
	case 1:
		s.SetEqualityPolicy(func(any, any) error { return nil })
	case 2:
		s.SetEqualityPolicy(func(any, any) error { return errPolicyRejects })
	}
	if n.ReadOnly {
		s.SetReadOnly(true)
	}
	return s
}

var errPolicyRejects = fmt.Errorf("validity policy rejects this stack")

// BuildStyle selects HOW a description's options are applied (set per case by the driver hook; the resulting
// configuration is the same for every style): 0 Set...(true); 1 the deprecated spelling with true; 2 Set...() toggle form;
// 3 deprecated toggle form; 4 like 0 but after the elements have been pushed; 5 set, clear, set again - and options the
// description leaves off are switched on and off again.
var BuildStyle int

var toggleSpell int

func applyOpt(want bool, set, dep func(...bool)) {
	switch BuildStyle {
	case 2, 3:
		if want && toggleSpell%2 == 1 {
			// "passing nothing" has more than one spelling
			if BuildStyle == 2 {
				set([]bool{}...)
			} else {
				dep([]bool{}...)
			}
			return
		}
	}
	switch BuildStyle {
	case 1:
		if want {
			dep(true)
		}
	case 2:
		if want {
			set()
		}
	case 3:
		if want {
			dep()
		}
	case 5:
		set(true)
		dep(false)
		if want {
			set(true)
		}
	default:
		if want {
			set(true)
		}
	}
}

// AutoMutex: in a quarter of the cases of every single-goroutine monitor, each stack the harness creates through NewStack
// has its mutex enabled. Together with the lock watcher below this turns every monitor into a detector of calls that
// re-acquire a lock they hold (certain deadlock) or return with a lock still held.
var AutoMutex bool

type reentrantLockAll struct{ id uintptr }

func (r reentrantLockAll) String() string {
	return fmt.Sprintf("re-entrant acquisition of stack lock #%x by the goroutine that holds it (certain deadlock)", r.id)
}

var (
	lockWatchHeld = map[uintptr]int{}
	lockWatchMu   sync.Mutex // (the watcher is meant for single-goroutine cases; this only keeps its own map safe)
)

func lockWatch(point string, id uintptr) {
	lockWatchMu.Lock()
	defer lockWatchMu.Unlock()
	switch point {
	case "lock.want":
		if lockWatchHeld[id] > 0 {
			lockWatchHeld[id] = 0
			panic(reentrantLockAll{id}.String())
		}
	case "lock.held":
		lockWatchHeld[id]++
	case "lock.released":
		if lockWatchHeld[id] > 0 {
			lockWatchHeld[id]--
		}
	}
}

func init() {
	core.BeforeCase = func(c *core.Ctx, m *core.Monitor, idx int) {
		BuildStyle = (idx / 3) % 6
		CapSpell = (idx / 7) % 6
		toggleSpell = idx / 2
		capSpellN = idx
		AutoMutex = false
		PastSpell = 0
		LeftErrStart = false
		if !m.Race {
			LeftErrStart = (idx/11)%8 == 3
			PastSpell = 0
			if (idx/13)%4 == 2 {
				PastSpell = 1 + (idx/52)%4
			}
			// (C10 and C11 run several goroutines against one structure and bring their own lock monitors)
			AutoMutex = (idx/5)%4 == 0
			for k := range lockWatchHeld {
				delete(lockWatchHeld, k)
			}
			stackage.VerifSetHook(lockWatch)
			if idx%16 == 11 {
				noiseStart()
			}
		}
	}
	core.AfterCase = func(c *core.Ctx, m *core.Monitor, idx int) {
		if m.Race {
			return
		}
		stackage.VerifSetHook(nil)
		if noise.stop != nil {
			if b := noiseStopAndReport(); b != "" {
				c.Violate("bystander-goroutine", fmt.Sprintf("case %d: %s", idx, b), map[string]any{"idx": idx})
			}
			c.Count("cases.with-bystander-goroutines")
		}
		for id, n := range lockWatchHeld {
			if n > 0 {
				c.Violate("lock-left-held", fmt.Sprintf("case %d ended with stack lock #%x still held (%d): the next locking call on that stack would never return", idx, id, n), map[string]any{"idx": idx})
				break
			}
		}
	}
}

// BuildCond instantiates a condition node as a native Condition.
func (n *TNode) BuildCond() stackage.Condition {
	buildEnter()
	defer buildLeave()
	var c stackage.Condition
	if n.ViaCond {
		var op stackage.Operator
		if n.Op != nil {
			op = n.Op.Build()
		}
		var ex any
		if n.Expr != nil {
			ex = n.Expr.Build()
		}
		c = stackage.Cond("", op, ex)
		c.SetKeyword(n.Kw)
	} else {
		c.Init()
		c.SetKeyword(n.Kw)
		if n.Op != nil {
			c.SetOperator(n.Op.Build())
		}
		if n.Expr != nil {
			c.SetExpression(n.Expr.Build())
		}
	}
	applyOpt(n.Paren, func(b ...bool) { c.SetParen(b...) }, func(b ...bool) { c.Paren(b...) })
	applyOpt(n.NoPad, func(b ...bool) { c.SetNoPadding(b...) }, func(b ...bool) { c.NoPadding(b...) })
	for _, e := range n.Enc {
		if BuildStyle%2 == 1 {
			c.Encap(append([]string{}, e...))
		} else {
			c.SetEncap(append([]string{}, e...))
		}
	}
	if n.NoNest {
		c.SetNoNesting(true) // (after the expression is in: says nothing about what is already held)
	}
	if n.LeftErr {
		c.SetErr(errPolicyRejects)
	}
	if n.PPol {
		c.SetPresentationPolicy(func(...any) string { return "<presented condition>" })
	}
	switch n.VPol {
	case 1:
		c.SetValidityPolicy(func(...any) error { return nil })
	case 2:
		c.SetValidityPolicy(func(...any) error { return errPolicyRejects })
	}
	if n.UPol {
		c.SetUnmarshaler(func(...any) ([]any, error) { return []any{"<condition unmarshaled by the user's closure>"}, nil })
	}
	switch n.EPol {
	case 1:
		c.SetEqualityPolicy(func(any, any) error { return nil })
	case 2:
		c.SetEqualityPolicy(func(any, any) error { return errPolicyRejects })
	}
	if n.ReadOnly {
		c.SetReadOnly(true)
	}
	return c
}

// Depth of the description (a leaf is 0, a stack of leaves 1).
func (n *TNode) Depth() int {
	d := 0
	switch n.T {
	case "stack":
		for _, k := range n.Kids {
			if kd := k.Depth() + 1; kd > d {
				d = kd
			}
		}
		if d == 0 {
			d = 1
		}
	case "cond":
		if n.Expr != nil {
			d = n.Expr.Depth()
		}
	}
	return d
}

// Walk visits every node.
func (n *TNode) Walk(f func(*TNode)) {
	f(n)
	for _, k := range n.Kids {
		k.Walk(f)
	}
	if n.Expr != nil {
		n.Expr.Walk(f)
	}
}

// Clone copies the description; Shared nodes stay shared among their positions in the copy.
func (n *TNode) Clone() *TNode {
	if cloneDepth == 0 {
		cloneMemo = map[*TNode]*TNode{}
	}
	cloneDepth++
	defer func() {
		cloneDepth--
		if cloneDepth == 0 {
			cloneMemo = nil
		}
	}()
	if n.Shared {
		if c, ok := cloneMemo[n]; ok {
			return c
		}
	}
	c := n.clone()
	if n.Shared {
		cloneMemo[n] = c
	}
	return c
}

var (
	cloneMemo  map[*TNode]*TNode
	cloneDepth int
)

func (n *TNode) clone() *TNode {
	c := *n
	if n.Leaf != nil {
		c.Leaf = n.Leaf.Clone()
	}
	if n.Op != nil {
		o := *n.Op
		c.Op = &o
	}
	if n.Enc != nil {
		c.Enc = make([][]string, len(n.Enc))
		for i := range n.Enc {
			c.Enc[i] = append([]string{}, n.Enc[i]...)
		}
	}
	c.Kids = make([]*TNode, len(n.Kids))
	for i, k := range n.Kids {
		c.Kids[i] = k.Clone()
	}
	if len(c.Kids) == 0 {
		c.Kids = nil
	}
	if n.Expr != nil {
		c.Expr = n.Expr.Clone()
	}
	return &c
}

// Brief renders the description compactly for messages.
func (n *TNode) Brief() string {
	var b strings.Builder
	n.brief(&b)
	s := b.String()
	if len(s) > 600 {
		s = s[:600] + "…"
	}
	return s
}

func (n *TNode) brief(b *strings.Builder) {
	switch n.T {
	case "nil":
		b.WriteString("nil")
	case "leaf":
		fmt.Fprintf(b, "%s", Show(n.Leaf.Build()))
	case "stack":
		b.WriteString(n.Kind)
		var fl []string
		if n.Paren {
			fl = append(fl, "paren")
		}
		if n.Fold {
			fl = append(fl, "fold")
		}
		if n.NoPad {
			fl = append(fl, "nopad")
		}
		if n.LeadOnce {
			fl = append(fl, "lonce")
		}
		if n.Neg {
			fl = append(fl, "neg")
		}
		if n.Fwd {
			fl = append(fl, "fwd")
		}
		if n.Sym != "" {
			fl = append(fl, "sym="+n.Sym)
		}
		if n.Delim != "" {
			fl = append(fl, "delim="+n.Delim)
		}
		if len(n.Enc) > 0 {
			fl = append(fl, fmt.Sprintf("enc=%v", n.Enc))
		}
		if n.Mutex {
			fl = append(fl, "mutex")
		}
		if n.Alias != 0 {
			fl = append(fl, fmt.Sprintf("alias%d", n.Alias))
		}
		if len(fl) > 0 {
			b.WriteString("{" + strings.Join(fl, ",") + "}")
		}
		b.WriteString("[")
		for i, k := range n.Kids {
			if i > 0 {
				b.WriteString(" ")
			}
			k.brief(b)
		}
		b.WriteString("]")
	case "cond":
		b.WriteString("Cond")
		if n.Alias != 0 {
			fmt.Fprintf(b, "{alias%d}", n.Alias)
		}
		fmt.Fprintf(b, "(%q ", n.Kw)
		if n.Op != nil {
			b.WriteString(n.Op.Text())
		} else {
			b.WriteString("<no-op>")
		}
		b.WriteString(" ")
		if n.Expr != nil {
			n.Expr.brief(b)
		} else {
			b.WriteString("<no-expr>")
		}
		b.WriteString(")")
	}
}

// ---------------------------------------------------------------- generation

// TreeGen parameterises random tree generation.
type TreeGen struct {
	MaxDepth, MaxWidth int
	NilLeaves          int // percent of leaf positions that are nil
	Conds              int // percent of element positions that are Conditions
	CondStackExpr      int // percent of Conditions whose expression is a Stack
	CondCondExpr       int // percent of Conditions whose expression is a Condition
	Aliases            int // percent of nested Stacks/Conditions given an alias form
	IdxOpts            bool
	Present            bool // draw presentation options (paren, fold, nopad, lead-once, symbol, delimiter, encap)
	Mutex              int  // percent of stacks with the mutex enabled
	Kinds              []string
	Leaf               func(r *core.Rng) *LeafDesc
	StackProb          int // percent chance that an element position below MaxDepth is a nested stack
	MinWidth           int
	Ops                func(r *core.Rng) *OpDesc
}

var leafWords = []string{"alpha", "beta", "gamma", "delta", "x", "y", "cn", "uid"}

// SimpleLeaf draws unique-ish ASCII leaves.
func SimpleLeaf(r *core.Rng) *LeafDesc {
	switch r.Intn(6) {
	case 0:
		return &LeafDesc{Tag: "int", I: int64(r.Intn(1000))}
	case 1:
		return &LeafDesc{Tag: "float64", F: float64(r.Intn(1000)) / 8}
	case 2:
		return &LeafDesc{Tag: "bool", B: r.Bool()}
	}
	return &LeafDesc{Tag: "str", S: fmt.Sprintf("%s%d", leafWords[r.Intn(len(leafWords))], r.Intn(100))}
}

var builtinOps = []int{1, 2, 3, 4, 5, 6}

// SimpleOp draws a valid operator (mostly built-in).
func SimpleOp(r *core.Rng) *OpDesc {
	if r.Chance(1, 5) {
		return &OpDesc{User: true, Txt: []string{"~=", ":=", "=~", "EQ", "=", ">=", "!=", "<"}[r.Intn(8)], Ctx: "custom"} // (a user's operator may print like a built-in one and is still the user's)
	}
	return &OpDesc{Code: builtinOps[r.Intn(6)]}
}

// Gen draws a stack-rooted tree.
func (g *TreeGen) Gen(r *core.Rng) *TNode { return g.genStack(r, g.MaxDepth, true) }

func (g *TreeGen) kinds() []string {
	if len(g.Kinds) > 0 {
		return g.Kinds
	}
	return Kinds
}

func (g *TreeGen) genStack(r *core.Rng, depth int, root bool) *TNode {
	ks := g.kinds()
	n := &TNode{T: "stack", Kind: ks[r.Intn(len(ks))]}
	if g.IdxOpts {
		n.Neg, n.Fwd = r.Chance(1, 3), r.Chance(1, 3)
	}
	if g.Present {
		n.Paren, n.Fold, n.NoPad, n.LeadOnce = r.Chance(1, 3), r.Chance(1, 4), r.Chance(1, 4), r.Chance(1, 5)
		if n.Kind != "LIST" && r.Chance(1, 4) {
			n.Sym = []string{"&", "&&", "∧", "|", "und", "OrElse", "x"}[r.Intn(7)]
		}
		if n.Kind == "LIST" && r.Chance(1, 2) {
			n.Delim = []string{",", " | ", "、", ";", " ", "  ", "\t", "/", ".", "::", ", "}[r.Intn(11)]
		}
		if r.Chance(1, 4) {
			n.Enc = append(n.Enc, [][]string{{`"`}, {"(", ")"}, {"<", ">"}, {"'"}, {"«", "»"}, {"%"}, {"'%", "%'"}, {"%d"}}[r.Intn(8)])
			if r.Chance(1, 3) {
				n.Enc = append(n.Enc, [][]string{{"[", "]"}, {"`"}, {"{", "}"}}[r.Intn(3)])
			}
		}
	}
	if g.Mutex > 0 && r.Chance(g.Mutex, 100) {
		n.Mutex = true
	}
	if !root && g.Aliases > 0 && r.Chance(g.Aliases, 100) {
		n.Alias = r.Range(1, 4)
	}
	w := r.Range(g.MinWidth, g.MaxWidth)
	for i := 0; i < w; i++ {
		n.Kids = append(n.Kids, g.genElem(r, depth-1))
	}
	return n
}

func (g *TreeGen) leaf(r *core.Rng) *TNode {
	if g.NilLeaves > 0 && r.Chance(g.NilLeaves, 100) {
		return &TNode{T: "nil"}
	}
	lf := SimpleLeaf
	if g.Leaf != nil {
		lf = g.Leaf
	}
	return &TNode{T: "leaf", Leaf: lf(r)}
}

func (g *TreeGen) genElem(r *core.Rng, depth int) *TNode {
	if g.Conds > 0 && r.Chance(g.Conds, 100) {
		return g.genCond(r, depth)
	}
	if depth > 0 && r.Chance(g.StackProb, 100) {
		return g.genStack(r, depth, false)
	}
	return g.leaf(r)
}

func (g *TreeGen) genCond(r *core.Rng, depth int) *TNode {
	ops := SimpleOp
	if g.Ops != nil {
		ops = g.Ops
	}
	n := &TNode{T: "cond", Kw: leafWords[r.Intn(len(leafWords))], Op: ops(r)}
	if g.Aliases > 0 && r.Chance(g.Aliases, 100) {
		n.Alias = r.Range(1, 4)
	}
	if g.Present {
		n.Paren, n.NoPad = r.Chance(1, 4), r.Chance(1, 5)
		if r.Chance(1, 4) {
			n.Enc = append(n.Enc, [][]string{{`"`}, {"(", ")"}, {"'"}}[r.Intn(3)])
		}
	}
	switch {
	case depth > 0 && r.Chance(g.CondStackExpr, 100):
		n.Expr = g.genStack(r, depth, false)
	case depth > 0 && r.Chance(g.CondCondExpr, 100):
		n.Expr = g.genCond(r, depth-1)
	default:
		lf := SimpleLeaf
		if g.Leaf != nil {
			lf = g.Leaf
		}
		l := lf(r)
		if l.Tag == "str" && l.S == "" {
			l.S = "e"
		}
		n.Expr = &TNode{T: "leaf", Leaf: l}
	}
	return n
}

// Spice adds, after generation, the things small fresh trees never have: a very wide stack, a very long string, and ONE
// nested instance that occurs at two positions (twice in its parent, or in its parent and again at the end of the root).
// SpiceNoHuge keeps Spice from building thousand-element stacks (for monitors whose work per tree grows with the square of
// its size; they have dedicated large cases instead).
var SpiceNoHuge bool

// SpiceErrs (own PRNG stream; a tenth of the cases) marks some Stack / Condition nodes as carrying an error left behind by
// an earlier call (SetErr after the instance is complete). What an instance holds, renders as, equals or leads to is a
// matter of its content and settings, not of what some earlier call complained about.
func SpiceErrs(seed uint64, idx int, root *TNode) bool {
	sp := core.NewRng(core.Mix(seed+0xe4405, uint64(idx)))
	if !sp.Chance(1, 10) {
		return false
	}
	any := false
	root.Walk(func(n *TNode) {
		if (n.T == "stack" || n.T == "cond") && sp.Chance(1, 3) {
			n.LeftErr = true
			any = true
		}
	})
	return any
}

func Spice(r *core.Rng, root *TNode, wide, long, share bool) (did string) {
	var stacks []*TNode
	var strs []*TNode
	type occ struct{ parent, kid *TNode }
	var nested []occ
	root.Walk(func(n *TNode) {
		if n.T == "stack" {
			if n.Cap == 0 {
				stacks = append(stacks, n)
			}
			for _, k := range n.Kids {
				if (k.T == "stack" || k.T == "cond") && n.Cap == 0 {
					nested = append(nested, occ{n, k})
				}
			}
		}
		if n.T == "leaf" && n.Leaf != nil && n.Leaf.Tag == "str" && n.Leaf.S != "" {
			strs = append(strs, n)
		}
	})
	if wide && len(stacks) > 0 {
		w := stacks[r.Intn(len(stacks))]
		n := r.Range(13, 60)
		if r.Chance(1, 12) && !SpiceNoHuge {
			n = r.Range(900, 1400) // well beyond any pre-sized or chunked regime
			// (the larger magnitudes are rarer in proportion, so that the average tree does not grow)
			switch k := r.Intn(200); {
			case k < 20:
				n = r.Range(4090, 4200) // around 2^12
			case k == 20:
				n = r.Range(65530, 65600) // around 2^16
			case k < 60:
				n = r.Range(250, 262) // around 2^8
			}
		}
		for i := 0; i < n; i++ {
			w.Kids = append(w.Kids, &TNode{T: "leaf", Leaf: &LeafDesc{Tag: "int", I: int64(5000 + i)}})
		}
		did += "wide "
		if r.Chance(1, 3) {
			// ... and a chain of 10..18 single-child levels hanging off the root (kinds alternate, some parenthetical)
			var cur *TNode = &TNode{T: "leaf", Leaf: &LeafDesc{Tag: "str", S: "chain-bottom"}}
			for d, depth := 0, r.Range(10, 18); d < depth; d++ {
				cur = &TNode{T: "stack", Kind: []string{"AND", "OR", "NOT", "LIST"}[(d+n)%4], Paren: (d+n)%3 == 0,
					Kids: []*TNode{{T: "leaf", Leaf: &LeafDesc{Tag: "int", I: int64(d)}}, cur}}
			}
			if root.Cap == 0 {
				root.Kids = append(root.Kids, cur)
				did = "wide+deep "
			}
		}
	}
	if long && len(strs) > 0 {
		l := strs[r.Intn(len(strs))]
		n := r.Range(40, 200)
		if r.Chance(1, 8) {
			n = r.Range(4000, 9000) // several kilobytes
			if r.Chance(1, 20) {
				n = r.Range(65500, 70000) // beyond 2^16 bytes
			}
		}
		b := make([]byte, n)
		for i := range b {
			b[i] = "abcdefghijklmnopqrstuvwxyz0123456789"[(i*7+n)%36]
		}
		l.Leaf.S = string(b)
		did += "long "
	}
	if share && len(nested) > 0 && root.Cap == 0 {
		o := nested[r.Intn(len(nested))]
		o.kid.Shared = true
		if r.Bool() {
			o.parent.Kids = append(o.parent.Kids, o.kid)
		} else {
			root.Kids = append(root.Kids, o.kid)
		}
		did += "shared "
	}
	return did
}
