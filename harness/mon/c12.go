package mon

import (
	"fmt"
	"math"
	"strings"

	stackage "github.com/JesseCoretta/go-stackage"
	"verifharness/core"
)

// C12 — user-defined aliases of Stack and Condition behave as the native types.

var c12Gen = TreeGen{MaxDepth: 3, MaxWidth: 4, MinWidth: 0, NilLeaves: 10, Conds: 25, CondStackExpr: 55, CondCondExpr: 10,
	IdxOpts: true, Present: true, StackProb: 45}

func c12Tier(tier string) int {
	if tier == "thorough" {
		return 3000000
	}
	return 60000
}

// equivalent compares two values from the native and the alias twin structurally.
func equivalent(a, b any) string {
	sa, isSa := AsStack(a)
	sb, isSb := AsStack(b)
	if isSa != isSb {
		return fmt.Sprintf("%s vs %s", Show(a), Show(b))
	}
	if isSa {
		ua, _ := sa.Unmarshal()
		ub, _ := sb.Unmarshal()
		return unmarshalEq(ua, ub, "")
	}
	ca, isCa := AsCond(a)
	cb, isCb := AsCond(b)
	if isCa != isCb {
		return fmt.Sprintf("%s vs %s", Show(a), Show(b))
	}
	if isCa {
		ua, _ := ca.Unmarshal()
		ub, _ := cb.Unmarshal()
		return unmarshalEq(ua, ub, "")
	}
	if !SameValue(a, b) {
		return fmt.Sprintf("%s vs %s", Show(a), Show(b))
	}
	return ""
}

func c12Run(c *core.Ctx, idx int) {
	r := c.Rng
	nat := c12Gen.Gen(r)
	if SpiceErrs(uint64(c.Seed), idx, nat) {
		c.Count("trees.with-left-over-errors")
	}
	if sp := core.NewRng(core.Mix(uint64(c.Seed)+0x5b1ce, uint64(idx))); true && sp.Chance(1, 6) {
		// (own PRNG stream, so that the rest of the case is what it was without this step)
		if did := Spice(sp, nat, sp.Chance(1, 2), sp.Chance(1, 2), sp.Chance(1, 2)); did != "" {
			c.Count("trees.spiced." + strings.ReplaceAll(strings.TrimSpace(did), " ", "+"))
		}
	}
	closures := r.Chance(1, 3)
	if closures {
		// user closures on individual nodes (the same ones in both trees): whatever the parent does with a nested node's
		// own Unmarshaler / presentation / validity / equality closure, it must do the same for every form of that node
		nat.Walk(func(n *TNode) {
			if n.T != "stack" && n.T != "cond" {
				return
			}
			if r.Chance(1, 4) {
				n.UPol = true
			}
			if r.Chance(1, 6) && (n.T == "cond" || n.Kind != "BASIC") {
				n.PPol = true
			}
			if r.Chance(1, 6) {
				n.VPol = 1 + r.Intn(2)
			}
			if r.Chance(1, 6) {
				n.EPol = 1 + r.Intn(2)
			}
		})
		c.Count("trees.with-node-closures")
	}
	if idx%4 == 3 {
		// some nested instances are frozen once built (holding their nil elements): whatever a parent's Defrag, Reveal or
		// Transfer does about a nested read-only instance, it does the same for every form of it
		root := true
		nat.Walk(func(n *TNode) {
			if (n.T == "stack" || n.T == "cond") && !root && r.Chance(1, 3) {
				n.ReadOnly = true
			}
			root = false
		})
		c.Count("trees.with-nested-read-only")
	}
	ali := nat.Clone()
	aliases, condExprAliases := 0, 0
	var assign func(n *TNode, root bool, inCond bool)
	assign = func(n *TNode, root, inCond bool) {
		if !root && (n.T == "stack" || n.T == "cond") && r.Chance(2, 3) {
			n.Alias = r.Range(1, 6)
			aliases++
			if inCond && n.T == "stack" {
				condExprAliases++
			}
		}
		for _, k := range n.Kids {
			assign(k, false, false)
		}
		if n.Expr != nil {
			assign(n.Expr, false, true)
		}
	}
	assign(ali, true, false)
	desc := map[string]any{"native": nat, "aliased": ali}
	fail := func(key, f string, a ...any) {
		c.Violate(key, fmt.Sprintf(f, a...)+"; aliased tree "+ali.Brief(), desc)
	}
	var N, A stackage.Stack
	if p, msg, site := Guard(func() { N, A = nat.BuildStack(), ali.BuildStack() }); p {
		fail("panic:"+site+":build", "building the trees panicked: %s", msg)
		return
	}
	if closures {
		// with user closures in the tree the natural baseline is a second NATIVE instance of the same description:
		// every comparison native-vs-aliased must come out as the same comparison native-vs-native does
		N2 := nat.BuildStack()
		var at []int
		same := func(what, base, got string) bool {
			if (base == "") != (got == "") {
				fail("closures:"+what, "%s %v: native vs native twin gives %q, native vs aliased gives %q", what, at, base, got)
				return false
			}
			return true
		}
		pan, msg, site := Guard(func() {
			if sn, sa := N.String(), A.String(); sn != sa {
				fail("closures:String", "String() %q with aliases, %q native", sa, sn)
				return
			}
			un, en := N.Unmarshal()
			u2, _ := N2.Unmarshal()
			ua, ea := A.Unmarshal()
			if (en == nil) != (ea == nil) || !same("Unmarshal", unmarshalEq(un, u2, "u"), unmarshalEq(un, ua, "u")) {
				if (en == nil) != (ea == nil) {
					fail("closures:Unmarshal", "Unmarshal error %v native, %v with aliases", en, ea)
				}
				return
			}
			es := func(e error) string {
				if e == nil {
					return ""
				}
				return e.Error()
			}
			if !same("IsEqual", es(N.IsEqual(N2)), es(N.IsEqual(A))) || !same("IsEqual(reverse)", es(N2.IsEqual(N)), es(A.IsEqual(N))) {
				return
			}
			if (N.Valid() == nil) != (A.Valid() == nil) {
				fail("closures:Valid", "Valid() %v native, %v with aliases", N.Valid(), A.Valid())
				return
			}
			for i := -1; i <= 4; i++ {
				for j := -2; j <= 4; j++ {
					path := []int{i, j}
					if j == -2 {
						path = path[:1]
					}
					at = path
					vn, okn := N.Traverse(path...)
					v2, _ := N2.Traverse(path...)
					va, oka := A.Traverse(path...)
					if okn != oka {
						fail("closures:Traverse", "Traverse(%v) ok=%v with aliases, %v native", path, oka, okn)
						return
					}
					if okn && !same("Traverse", equivalent(vn, v2), equivalent(vn, va)) {
						return
					}
				}
			}
			c.Count("closure-trees-compared")
		})
		if pan {
			fail("panic:"+site+":closures", "panicked: %s", msg)
		}
		return
	}
	pan, msg, site := Guard(func() {
		// 1. String
		if sn, sa := N.String(), A.String(); sn != sa {
			fail("String", "String() %q with aliases, %q native", sa, sn)
			return
		}
		// 2. Unmarshal
		un, _ := N.Unmarshal()
		ua, _ := A.Unmarshal()
		if d := unmarshalEq(un, ua, "u"); d != "" {
			fail("Unmarshal", "Unmarshal differs at %s", d)
			return
		}
		// 3. IsEqual in both directions
		if e := A.IsEqual(N); e != nil {
			fail("IsEqual", "aliased.IsEqual(native)=%v", e)
			return
		}
		if e := N.IsEqual(A); e != nil {
			fail("IsEqual", "native.IsEqual(aliased)=%v", e)
			return
		}
		// 4. Traverse on all paths of length <= 3
		path := make([]int, 0, 4)
		var rec func(l int) bool
		rec = func(l int) bool {
			vn, okn := N.Traverse(path...)
			va, oka := A.Traverse(path...)
			if okn != oka {
				fail("Traverse", "Traverse(%v) ok=%v with aliases, %v native", path, oka, okn)
				return false
			}
			if d := equivalent(vn, va); d != "" {
				fail("Traverse", "Traverse(%v) differs: %s", path, d)
				return false
			}
			c.Count("traverse-pairs")
			if l == 0 {
				return true
			}
			for i := -1; i <= 4; i++ {
				path = append(path, i)
				ok := rec(l - 1)
				path = path[:len(path)-1]
				if !ok {
					return false
				}
			}
			return true
		}
		if !rec(3) {
			return
		}
		// 5. per-node queries, walking both instances in parallel
		var walk func(vn, va any, dn *TNode, p string) bool
		walk = func(vn, va any, dn *TNode, p string) bool {
			switch dn.T {
			case "stack":
				sn, okn := stackage.ConvertStack(vn)
				sa, oka := stackage.ConvertStack(va)
				if !okn || !oka {
					fail("ConvertStack", "%s: ConvertStack ok=%v with alias form, %v native", p, oka, okn)
					return false
				}
				if sn.IsNesting() != sa.IsNesting() || sn.Len() != sa.Len() || sn.Kind() != sa.Kind() {
					fail("IsNesting", "%s: IsNesting/Len/Kind %v/%d/%s with aliases, %v/%d/%s native", p, sa.IsNesting(), sa.Len(), sa.Kind(), sn.IsNesting(), sn.Len(), sn.Kind())
					return false
				}
				// the converted instance is the underlying one
				d1, _ := stackage.VerifDump(va)
				d2, _ := stackage.VerifDump(sa)
				if d1.HdrAddr != d2.HdrAddr || d1.HdrAddr == 0 {
					fail("ConvertStack", "%s: ConvertStack did not return the underlying instance", p)
					return false
				}
				for i, k := range dn.Kids {
					en, _ := sn.Index(i)
					ea, _ := sa.Index(i)
					if !walk(en, ea, k, fmt.Sprintf("%s/%d", p, i)) {
						return false
					}
				}
			case "cond":
				cn, okn := stackage.ConvertCondition(vn)
				ca, oka := stackage.ConvertCondition(va)
				if !okn || !oka {
					fail("ConvertCondition", "%s: ConvertCondition ok=%v with alias form, %v native", p, oka, okn)
					return false
				}
				if cn.Len() != ca.Len() || cn.IsNesting() != ca.IsNesting() || cn.IsFIFO() != ca.IsFIFO() || cn.String() != ca.String() {
					fail("Condition.Len", "%s: Len/IsNesting/String %d/%v/%q with aliases, %d/%v/%q native", p, ca.Len(), ca.IsNesting(), ca.String(), cn.Len(), cn.IsNesting(), cn.String())
					return false
				}
				c.Count("condition-nodes")
				if dn.Expr != nil {
					return walk(cn.Expression(), ca.Expression(), dn.Expr, p+".expr")
				}
			}
			return true
		}
		if !walk(N, A, nat, "root") {
			return
		}
		// 6. no-nesting refusal of every alias form found in the tree
		okAll := true
		ali.Walk(func(n *TNode) {
			if !okAll || n.T != "stack" || n.Alias == 0 {
				return
			}
			v := n.Build()
			guard := stackage.And().SetNoNesting(true).Push(v, "z")
			if guard.Len() != 1 {
				fail("no-nesting", "a no-nesting stack stored an alias form %d (Len %d)", n.Alias, guard.Len())
				okAll = false
				return
			}
			// the other ways in (Insert, Replace) and a Condition whose option is raised AFTER it took the value: whatever
			// happens to the native form happens to this form
			nv := stackage.Stack{}
			if cs, ok := AsStack(v); ok {
				nv = cs
			}
			gA := stackage.And().SetNoNesting(true).Push("p", "q")
			gN := stackage.And().SetNoNesting(true).Push("p", "q")
			ia, in := gA.Insert(v, 1), gN.Insert(nv, 1)
			ra, rn := gA.Replace(v, 0), gN.Replace(nv, 0)
			if ia != in || ra != rn || gA.Len() != gN.Len() || gA.IsNesting() != gN.IsNesting() {
				fail("no-nesting:Insert/Replace", "into a no-nesting stack: Insert/Replace of alias form %d gave %v/%v (Len %d, IsNesting %v), of the native Stack %v/%v (Len %d, IsNesting %v)", n.Alias, ia, ra, gA.Len(), gA.IsNesting(), in, rn, gN.Len(), gN.IsNesting())
				okAll = false
				return
			}
			cA := stackage.Cond("k", stackage.Eq, v).SetNoNesting(true)
			cN := stackage.Cond("k", stackage.Eq, nv).SetNoNesting(true)
			if cA.IsNesting() != cN.IsNesting() || cA.Len() != cN.Len() || cA.String() != cN.String() {
				fail("no-nesting:late", "Condition holding alias form %d with no-nesting raised afterwards: IsNesting %v Len %d, native %v %d", n.Alias, cA.IsNesting(), cA.Len(), cN.IsNesting(), cN.Len())
				okAll = false
				return
			}
			pA, pN := stackage.And().Push("a", cA), stackage.And().Push("a", cN)
			ta, oka := pA.Traverse(1, 0)
			tn, okn := pN.Traverse(1, 0)
			if oka != okn || !SameValue(ta, tn) {
				fail("no-nesting:late", "Traverse through a late-no-nesting Condition holding alias form %d: (%s,%v), native (%s,%v)", n.Alias, Show(ta), oka, Show(tn), okn)
				okAll = false
				return
			}
			// a pointer-held alias whose pointee is exchanged after the Condition has taken (and rendered) it: the Condition
			// shows what the pointer designates NOW, as it does for a native *Stack
			if nv.IsInit() {
				other := stackage.Or().Push("exchanged", "content")
				va, vn := AStack(nv), nv
				pa, pn := &va, &vn
				ca, cn := stackage.Cond("k", stackage.Eq, pa), stackage.Cond("k", stackage.Eq, pn)
				_, _ = ca.String(), cn.String()
				ca.Len()
				cn.Len()
				va, vn = AStack(other), other
				want := stackage.Cond("k", stackage.Eq, other) // what a Condition holding the new pointee by value shows
				ua, _ := ca.Unmarshal()
				un, _ := cn.Unmarshal()
				uw, _ := want.Unmarshal()
				for form, cx := range map[string]stackage.Condition{"*alias": ca, "*Stack": cn} {
					ux := ua
					if form == "*Stack" {
						ux = un
					}
					if cx.String() != want.String() || cx.Len() != want.Len() || cx.IsNesting() != want.IsNesting() || unmarshalEq(uw, ux, "u") != "" ||
						stackage.And().Push(cx).String() != stackage.And().Push(want).String() {
						fail("pointer-form:stale", "after the pointee of a %s expression was exchanged the Condition shows %q (Len %d); a Condition holding the new pointee shows %q (Len %d)", form, cx.String(), cx.Len(), want.String(), want.Len())
						okAll = false
						return
					}
				}
			}
			cd := stackage.Cond("k", stackage.Eq, "keep").SetNoNesting(true).SetExpression(v)
			if cd.Expression() != "keep" {
				fail("no-nesting", "a no-nesting Condition accepted alias form %d as expression", n.Alias)
				okAll = false
				return
			}
			open := stackage.And().Push(v)
			if open.Len() != 1 || !open.IsNesting() {
				fail("IsNesting", "alias form %d pushed into a stack: Len %d IsNesting %v", n.Alias, open.Len(), open.IsNesting())
				okAll = false
			}
			c.Count("alias-forms-probed")
		})
		if !okAll {
			return
		}
		// 7. Transfer into alias / pointer destinations
		for form := 1; form <= 6; form++ {
			d := stackage.Basic()
			var dst any
			switch form {
			case 1:
				dst = AStack(d)
			case 2:
				a := AStack(d)
				dst = &a
			case 3:
				dst = SStack(d)
			case 4:
				a := SStack(d)
				dst = &a
			case 5:
				dst = XStack(d)
			default:
				a := XStack(d)
				dst = &a
			}
			ok := A.Transfer(dst)
			dn := stackage.Basic()
			okN := N.Transfer(dn)
			if ok != okN || d.Len() != dn.Len() {
				fail("Transfer", "Transfer into alias form %d: ok=%v Len=%d; native ok=%v Len=%d", form, ok, d.Len(), okN, dn.Len())
				return
			}
		}
		// 8. Defrag gives the same result on both - with the default scan limit, or (on a third of the pairs) with an
		// explicit one that the nil runs of nested stacks straddle
		switch idx % 3 {
		case 1:
			lim := []int{1, 2, 3, 100}[r.Intn(4)]
			N.Defrag(lim)
			A.Defrag(lim)
		default:
			N.Defrag()
			A.Defrag()
		}
		un2, _ := N.Unmarshal()
		ua2, _ := A.Unmarshal()
		if d := unmarshalEq(un2, ua2, "u"); d != "" {
			fail("Defrag", "after Defrag the trees differ at %s", d)
			return
		}
	})
	if pan {
		fail("panic:"+site, "panicked: %s", msg)
		return
	}
	c.Count("tree-pairs")
	if aliases >= 1 && condExprAliases >= 1 {
		c.NontrivialStr(core.JSON(ali))
		c.Count("trees.alias-below-root-and-as-condition-expression")
	}
	if c.WantSample() && condExprAliases > 0 && idx%307 == 4 {
		c.Sample(map[string]any{"aliased": ali.Brief(), "String": A.String()})
	}
	if idx%50 == 0 {
		c12Convert(c)
	}
	if idx%50 == 25 {
		c12Shared(c)
	}
}

// c12Convert: ConvertStack / ConvertCondition on non-convertible values.
// c12Shared: alias and native forms of ONE underlying instance, held by different trees. Whatever IsEqual says about a
// tree holding the instance natively against a twin holding the same instance, it says about the tree holding it as an
// alias (or through a pointer) - also when the instance is not equal to itself (NaN) or carries an equality closure.
func c12Shared(c *core.Ctx) {
	r := c.Rng
	var ex any = "plain"
	what := "plain expression"
	switch r.Intn(4) {
	case 0:
		ex, what = math.NaN(), "NaN expression"
	case 1:
		ex, what = []float64{1, math.NaN()}, "NaN inside a slice expression"
	case 2:
		ex, what = stackage.Or().Push("x", math.NaN()), "Stack expression holding NaN"
	}
	cd := stackage.Cond("k", stackage.Eq, ex)
	if r.Chance(1, 3) {
		cd.SetEqualityPolicy(func(any, any) error { return errPolicyRejects })
		what += " + rejecting equality closure"
	}
	inner := stackage.Or().Push("s", math.NaN())
	forms := []struct {
		name string
		c, s any
	}{
		{"alias", ACond(cd), AStack(inner)},
		{"pointer to alias", func() any { a := ACond(cd); return &a }(), func() any { a := AStack(inner); return &a }()},
		{"pointer", &cd, &inner},
	}
	f := forms[r.Intn(len(forms))]
	wrap := func(v any) stackage.Stack {
		if r.Bool() {
			return stackage.And().Push("a", stackage.List().Push(v), "z")
		}
		return stackage.And().Push("a", v, "z")
	}
	seedState := *r
	N, T := wrap(cd), wrap(cd)
	*r = seedState
	A := wrap(f.c)
	desc := map[string]any{"instance": what, "form": f.name}
	var nt, at, ta error
	if p, msg, site := Guard(func() { nt, at, ta = N.IsEqual(T), A.IsEqual(T), T.IsEqual(A) }); p {
		c.Violatef("panic:"+site+":shared-instance", desc, "IsEqual panicked: %s", msg)
		return
	}
	if (nt == nil) != (at == nil) || (nt == nil) != (ta == nil) {
		c.Violatef("shared-instance:IsEqual", desc, "one Condition (%s) held natively by two trees: IsEqual=%v; held as %s by one of them: %v / %v in the two directions", what, nt, f.name, at, ta)
		return
	}
	*r = seedState
	NS, TS := wrap(inner), wrap(inner)
	*r = seedState
	AS := wrap(f.s)
	if p, msg, site := Guard(func() { nt, at, ta = NS.IsEqual(TS), AS.IsEqual(TS), TS.IsEqual(AS) }); p {
		c.Violatef("panic:"+site+":shared-instance", desc, "IsEqual panicked: %s", msg)
		return
	}
	if (nt == nil) != (at == nil) || (nt == nil) != (ta == nil) {
		c.Violatef("shared-instance:IsEqual", desc, "one Stack (holding NaN) held natively by two trees: IsEqual=%v; held as %s by one of them: %v / %v", nt, f.name, at, ta)
		return
	}
	c.Count("shared-instance-probes")
}

func c12Convert(c *core.Ctx) {
	vals := []Awkward{
		{"nil", func() any { return nil }}, {"AStack{}", func() any { return AStack{} }}, {"SStack{}", func() any { return SStack{} }},
		{"ACond{}", func() any { return ACond{} }}, {"SCond{}", func() any { return SCond{} }}, {"(*AStack)(nil)", func() any { return (*AStack)(nil) }},
		{"(*ACond)(nil)", func() any { return (*ACond)(nil) }}, {"&AStack{}", func() any { return &AStack{} }}, {"&ACond{}", func() any { return &ACond{} }},
		{"int", func() any { return 5 }}, {"string", func() any { return "AND" }}, {"struct", func() any { return privStruct{} }}, {"[]any", func() any { return []any{"AND"} }},
		{"map", func() any { return map[string]any{} }}, {"func", func() any { return func() {} }}, {"*int", func() any { i := 1; return &i }},
		{"Condition as stack", func() any { return stackage.Cond("k", stackage.Eq, "v") }}, {"ACond as stack", func() any { return ACond(stackage.Cond("k", stackage.Eq, "v")) }},
	}
	for _, v := range vals {
		var s stackage.Stack
		var ok bool
		if p, msg, site := Guard(func() { s, ok = stackage.ConvertStack(v.New()) }); p {
			c.Violatef("panic:"+site+":ConvertStack", map[string]any{"value": v.Name}, "ConvertStack(%s) panicked: %s", v.Name, msg)
			return
		}
		if ok || !s.IsZero() {
			c.Violatef("ConvertStack:false-positive", map[string]any{"value": v.Name}, "ConvertStack(%s) = (IsZero %v, %v), expected (zero,false)", v.Name, s.IsZero(), ok)
			return
		}
	}
	for _, v := range vals {
		if v.Name == "Condition as stack" || v.Name == "ACond as stack" {
			continue
		}
		var cd stackage.Condition
		var ok bool
		if p, msg, site := Guard(func() { cd, ok = stackage.ConvertCondition(v.New()) }); p {
			c.Violatef("panic:"+site+":ConvertCondition", map[string]any{"value": v.Name}, "ConvertCondition(%s) panicked: %s", v.Name, msg)
			return
		}
		if ok || !cd.IsZero() {
			c.Violatef("ConvertCondition:false-positive", map[string]any{"value": v.Name}, "ConvertCondition(%s) = (IsZero %v, %v), expected (zero,false)", v.Name, cd.IsZero(), ok)
			return
		}
	}
	// positive forms
	base := stackage.Or().Push("x")
	bd, _ := stackage.VerifDump(base)
	a, sa := AStack(base), SStack(base)
	for name, v := range map[string]any{"AStack": a, "*AStack": &a, "SStack": sa, "*SStack": &sa, "*Stack": &base} {
		s, ok := stackage.ConvertStack(v)
		d, _ := stackage.VerifDump(s)
		if !ok || d.HdrAddr != bd.HdrAddr {
			c.Violatef("ConvertStack:underlying", map[string]any{"value": name}, "ConvertStack(%s) ok=%v does not return the underlying instance", name, ok)
			return
		}
	}
	bc := stackage.Cond("k", stackage.Eq, "v")
	cdump, _ := stackage.VerifDump(bc)
	ac, sc := ACond(bc), SCond(bc)
	for name, v := range map[string]any{"ACond": ac, "*ACond": &ac, "SCond": sc, "*SCond": &sc, "*Condition": &bc} {
		cd, ok := stackage.ConvertCondition(v)
		d, _ := stackage.VerifDump(cd)
		if !ok || d.CfgAddr != cdump.CfgAddr {
			c.Violatef("ConvertCondition:underlying", map[string]any{"value": name}, "ConvertCondition(%s) ok=%v does not return the underlying instance", name, ok)
			return
		}
	}
	c.Count("convert-batteries")
}

func init() {
	core.Register(&core.Monitor{
		ID:    "C12",
		Cases: c12Tier,
		Run:   c12Run,
		Rule: "differential: a random tree description (depth <= 3, Conditions with Stack/Condition expressions, nil slots, presentation and index options) is instantiated twice - all native, and with two thirds of the nested Stacks/Conditions replaced by a random alias form " +
			"{alias value, pointer to alias, alias with a String method that delegates to the native rendering, pointer to that, alias whose own String method returns unrelated text, pointer to that}. For the pair: String, Unmarshal (deep), IsEqual in both directions, Traverse on ALL paths of length <= 3 over [-1,4], per-node IsNesting/Len/Kind and Condition.Len/IsNesting/IsFIFO/String, " +
			"ConvertStack/ConvertCondition returning the underlying instance, no-nesting refusal of every alias form (Stack and Condition side), Transfer into four alias destination forms, Defrag - all must agree with the native twin. " +
			"Every 50th case: ConvertStack/ConvertCondition on 18 non-convertible values (nil, zero aliases, typed nils, pointers to zero aliases, unrelated types) must give (zero,false). non-trivial = at least one alias below the root AND one alias as a Condition expression; distinct = aliased tree description.",
		Assumptions: []string{"an alias is rendered through its native conversion whether or not it has a String method of its own, and whatever that method returns"},
		Floors: func(string) map[string]int64 {
			return map[string]int64{"tree-pairs": 10000, "trees.with-nested-read-only": 3000, "cases.with-bystander-goroutines": 800, "trees.alias-below-root-and-as-condition-expression": 1500, "alias-forms-probed": 5000, "convert-batteries": 100, "condition-nodes": 5000}
		},
	})
}
