// vcheck is driver, child and replayer in one binary.
//
//	vcheck run <Cxx> <quick|thorough>     (seed from VERIF_SEED, default 1)
//	vcheck child <Cxx> <tier> <seed> <from> <to> <prefix>
//	vcheck replay <file>
//	vcheck list
package main

import (
	"fmt"
	"os"
	"path/filepath"
	"strconv"

	"verifharness/core"
	"verifharness/mon"
)

func main() {
	if d := os.Getenv("VERIF_DIR"); d != "" {
		core.VerifDir = d
	}
	if len(os.Args) < 2 {
		fmt.Println("usage: vcheck run|child|replay|list ...")
		os.Exit(2)
	}
	switch os.Args[1] {
	case "list":
		for _, id := range core.IDs() {
			m := core.Lookup(id)
			fmt.Printf("%s quick=%d thorough=%d\n", id, m.Cases("quick"), m.Cases("thorough"))
		}
	case "run":
		if len(os.Args) < 4 {
			fmt.Println("usage: vcheck run <Cxx> <quick|thorough>")
			os.Exit(2)
		}
		seed := int64(1)
		if v := os.Getenv("VERIF_SEED"); v != "" {
			if n, err := strconv.ParseInt(v, 10, 64); err == nil {
				seed = n
			}
		}
		self, _ := os.Executable()
		race := filepath.Join(filepath.Dir(self), "vcheck-race")
		os.Exit(core.DriverMain(os.Args[2], os.Args[3], seed, self, race))
	case "child":
		a := os.Args[2:]
		if len(a) < 6 {
			os.Exit(2)
		}
		seed, _ := strconv.ParseInt(a[2], 10, 64)
		from, _ := strconv.Atoi(a[3])
		to, _ := strconv.Atoi(a[4])
		os.Exit(core.ChildMain(a[0], a[1], seed, from, to, a[5]))
	case "aux":
		if len(os.Args) < 3 || !mon.RunAux(os.Args[2]) {
			fmt.Println("unknown aux command")
			os.Exit(2)
		}
	case "replay":
		if len(os.Args) < 3 {
			os.Exit(2)
		}
		os.Exit(core.ReplayMain(os.Args[2]))
	default:
		fmt.Println("unknown command")
		os.Exit(2)
	}
}
