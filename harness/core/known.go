package core

import (
	"bufio"
	"os"
	"strings"
)

// Finding is one `finding:` line of KNOWN_FINDINGS.txt. A key ending in '*'
// matches by prefix; otherwise the match is exact. `fixed:` lines are
// documentation only and suppress nothing.
type Finding struct {
	Prop, Key, Text string
}

func (f Finding) Match(key string) bool {
	if strings.HasSuffix(f.Key, "*") {
		return strings.HasPrefix(key, strings.TrimSuffix(f.Key, "*"))
	}
	return f.Key == key
}

type KnownFindings struct{ list []Finding }

func LoadKnownFindings(path string) *KnownFindings {
	k := &KnownFindings{}
	f, err := os.Open(path)
	if err != nil {
		return k
	}
	defer f.Close()
	sc := bufio.NewScanner(f)
	sc.Buffer(make([]byte, 1<<20), 1<<20)
	for sc.Scan() {
		l := strings.TrimSpace(sc.Text())
		if !strings.HasPrefix(l, "finding:") {
			continue
		}
		var fd Finding
		rest := strings.Fields(strings.TrimPrefix(l, "finding:"))
		var text []string
		for _, w := range rest {
			switch {
			case strings.HasPrefix(w, "property=") && fd.Prop == "":
				fd.Prop = strings.TrimPrefix(w, "property=")
			case strings.HasPrefix(w, "key=") && fd.Key == "":
				fd.Key = strings.TrimPrefix(w, "key=")
			default:
				text = append(text, w)
			}
		}
		fd.Text = strings.Join(text, " ")
		if fd.Prop != "" && fd.Key != "" {
			k.list = append(k.list, fd)
		}
	}
	return k
}

func (k *KnownFindings) Matches(prop, key string) bool {
	for _, f := range k.list {
		if f.Prop == prop && f.Match(key) {
			return true
		}
	}
	return false
}

func (k *KnownFindings) For(prop string) []Finding {
	var out []Finding
	for _, f := range k.list {
		if f.Prop == prop {
			out = append(out, f)
		}
	}
	return out
}
