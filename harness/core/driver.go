package core

import (
	"bufio"
	"encoding/binary"
	"encoding/json"
	"fmt"
	"os"
	"os/exec"
	"path/filepath"
	"runtime"
	"runtime/debug"
	"sort"
	"strconv"
	"strings"
	"sync"
	"sync/atomic"
	"time"
)

// VerifDir is the root of the verification tree (set by main from VERIF_DIR or the binary's location).
var VerifDir = "/verif"

// ChildResult is what a child writes on normal completion.
type ChildResult struct {
	Prop        string            `json:"prop"`
	From        int               `json:"from"`
	To          int               `json:"to"`
	Evaluations int64             `json:"evaluations"`
	Counters    map[string]int64  `json:"counters"`
	Samples     []any             `json:"samples"`
	Viol        []Violation       `json:"viol"`
	ViolByKey   map[string]int64  `json:"viol_by_key"`
	FirstByKey  map[string]string `json:"first_by_key"`
	Notes       map[string]string `json:"notes"`
	Inconcl     []string          `json:"inconclusive"`
}

// progress is read by the child's hang watchdog.
var progress atomic.Int64

// RunCaseGuarded runs one case and turns an escaped panic into a violation.
// BeforeCase / AfterCase, when set, run around every case (harness-wide per-case settings derived from the case number,
// process-wide detectors).
var (
	BeforeCase func(c *Ctx, m *Monitor, idx int)
	AfterCase  func(c *Ctx, m *Monitor, idx int)
)

func RunCaseGuarded(m *Monitor, c *Ctx, idx int) {
	c.Begin(idx)
	if BeforeCase != nil {
		BeforeCase(c, m, idx)
	}
	if AfterCase != nil {
		defer AfterCase(c, m, idx)
	}
	defer func() {
		if r := recover(); r != nil {
			st := string(debug.Stack())
			c.Violate("panic:"+panicSite(st), fmt.Sprintf("case %d panicked: %v\n%s", idx, r, trimStack(st)), map[string]any{"idx": idx})
		}
	}()
	m.Run(c, idx)
}

// panicSite extracts the innermost go-stackage frame (function name) of a stack dump.
func panicSite(st string) string {
	lines := strings.Split(st, "\n")
	seenPanic := false
	for _, l := range lines {
		if strings.HasPrefix(l, "panic(") {
			seenPanic = true
			continue
		}
		if !seenPanic {
			continue
		}
		if strings.HasPrefix(l, "\t") {
			continue
		}
		if i := strings.Index(l, "go-stackage."); i >= 0 {
			f := l[i+len("go-stackage."):]
			if j := strings.LastIndex(f, "("); j > 0 {
				f = f[:j]
			}
			return f
		}
	}
	return "harness"
}

// PanicSite is exported for monitors that recover themselves.
func PanicSite(st string) string { return panicSite(st) }

func trimStack(st string) string {
	lines := strings.Split(st, "\n")
	if len(lines) > 40 {
		lines = lines[:40]
	}
	return strings.Join(lines, "\n")
}

// ChildMain executes cases [from,to) of a monitor and writes the result files.
var heartbeat atomic.Int64

// Beat tells the hang watchdog that the current case is alive (for cases that legitimately run for minutes).
func Beat() { heartbeat.Add(1) }

func ChildMain(prop, tier string, seed int64, from, to int, prefix string) int {
	m := Lookup(prop)
	if m == nil {
		fmt.Fprintf(os.Stderr, "unknown property %s\n", prop)
		return 2
	}
	logf, err := os.OpenFile(prefix+".log", os.O_CREATE|os.O_WRONLY|os.O_TRUNC, 0o644)
	if err != nil {
		fmt.Fprintln(os.Stderr, err)
		return 2
	}
	defer logf.Close()

	hangSecs := int64(180)
	if v := os.Getenv("VCHECK_HANG_SECS"); v != "" {
		if n, e := strconv.ParseInt(v, 10, 64); e == nil {
			hangSecs = n
		}
	}
	progress.Store(int64(from))
	go func() {
		last := progress.Load() + heartbeat.Load()<<32
		lastChange := time.Now()
		for {
			time.Sleep(2 * time.Second)
			p := progress.Load() + heartbeat.Load()<<32 // (a long case shows that it is alive through Beat)
			if p != last {
				last, lastChange = p, time.Now()
				continue
			}
			if time.Since(lastChange) > time.Duration(hangSecs)*time.Second {
				fmt.Fprintf(os.Stderr, "HANG case=%d\n", p)
				buf := make([]byte, 1<<20)
				n := runtime.Stack(buf, true)
				os.Stderr.Write(buf[:n])
				os.Exit(3)
			}
		}
	}()

	c := NewCtx(prop, tier, seed)
	c.ProcFrom, c.ProcMode = from, ProcModeFor(seed, from)
	if ProcWarm != nil {
		ProcWarm(c.ProcMode)
	}
	c.Counters[fmt.Sprintf("process.first-sight-mode.%d", c.ProcMode)]++
	if m.Setup != nil {
		m.Setup(c)
	}
	var line [32]byte
	for idx := from; idx < to; idx++ {
		b := append(line[:0], 'B', ' ')
		b = strconv.AppendInt(b, int64(idx), 10)
		b = append(b, '\n')
		logf.Write(b)
		progress.Store(int64(idx))
		RunCaseGuarded(m, c, idx)
	}
	progress.Store(int64(to) + 1)
	if m.Teardown != nil {
		progress.Store(int64(to) + 2)
		m.Teardown(c)
	}
	if ProcCounters != nil {
		for k, v := range ProcCounters() {
			c.Counters[k] += v
		}
	}
	res := ChildResult{Prop: prop, From: from, To: to, Evaluations: c.Evaluations, Counters: c.Counters,
		Samples: c.Samples, Viol: c.Viol, ViolByKey: c.ViolByKey, FirstByKey: c.FirstByKey, Notes: c.Notes, Inconcl: c.Inconcl}
	hb := make([]byte, 0, 8*len(c.Distinct))
	for h := range c.Distinct {
		hb = binary.LittleEndian.AppendUint64(hb, h)
	}
	if err := os.WriteFile(prefix+".hashes", hb, 0o644); err != nil {
		fmt.Fprintln(os.Stderr, err)
		return 2
	}
	jb, err := json.Marshal(res)
	if err != nil {
		// a sample or case that cannot be marshalled must not lose the verdicts
		res.Samples = []any{fmt.Sprintf("%+v", res.Samples)}
		for i := range res.Viol {
			res.Viol[i].Case = fmt.Sprintf("%+v", res.Viol[i].Case)
		}
		jb, err = json.Marshal(res)
		if err != nil {
			fmt.Fprintln(os.Stderr, err)
			return 2
		}
	}
	if err := os.WriteFile(prefix+".json.tmp", jb, 0o644); err != nil {
		fmt.Fprintln(os.Stderr, err)
		return 2
	}
	os.Rename(prefix+".json.tmp", prefix+".json")
	return 0
}

func lastBegun(logPath string) int {
	f, err := os.Open(logPath)
	if err != nil {
		return -1
	}
	defer f.Close()
	last := -1
	sc := bufio.NewScanner(f)
	for sc.Scan() {
		t := sc.Text()
		if strings.HasPrefix(t, "B ") {
			if n, e := strconv.Atoi(t[2:]); e == nil {
				last = n
			}
		}
	}
	return last
}

type merged struct {
	evaluations int64
	counters    map[string]int64
	distinct    map[uint64]struct{}
	samples     []any
	viol        []Violation
	violByKey   map[string]int64
	firstByKey  map[string]string
	notes       map[string]string
	inconcl     []string
	raceReports int64
	restarts    int
	hangs       int
	mu          sync.Mutex
}

func (mg *merged) absorb(prefix string) error {
	jb, err := os.ReadFile(prefix + ".json")
	if err != nil {
		return err
	}
	var r ChildResult
	if err := json.Unmarshal(jb, &r); err != nil {
		return err
	}
	hb, _ := os.ReadFile(prefix + ".hashes")
	mg.mu.Lock()
	defer mg.mu.Unlock()
	mg.evaluations += r.Evaluations
	for k, v := range r.Counters {
		mg.counters[k] += v
	}
	for i := 0; i+8 <= len(hb); i += 8 {
		mg.distinct[binary.LittleEndian.Uint64(hb[i:])] = struct{}{}
	}
	for _, s := range r.Samples {
		if len(mg.samples) < maxSamples {
			mg.samples = append(mg.samples, s)
		}
	}
	mg.viol = append(mg.viol, r.Viol...)
	for k, v := range r.ViolByKey {
		mg.violByKey[k] += v
	}
	for k, v := range r.FirstByKey {
		if _, ok := mg.firstByKey[k]; !ok {
			mg.firstByKey[k] = v
		}
	}
	for k, v := range r.Notes {
		mg.notes[k] = v
	}
	for _, m := range r.Inconcl {
		dup := false
		for _, x := range mg.inconcl {
			if x == m {
				dup = true
			}
		}
		if !dup {
			mg.inconcl = append(mg.inconcl, m)
		}
	}
	return nil
}

func (mg *merged) fatal(key, msg string, idx int) {
	mg.mu.Lock()
	defer mg.mu.Unlock()
	mg.violByKey[key]++
	if _, ok := mg.firstByKey[key]; !ok {
		mg.firstByKey[key] = msg
	}
	mg.viol = append(mg.viol, Violation{Key: key, Msg: msg, Idx: idx, Case: map[string]any{"idx": idx}})
}

func fatalSignature(errText string) string {
	for _, l := range strings.Split(errText, "\n") {
		l = strings.TrimSpace(l)
		if strings.HasPrefix(l, "fatal error:") || strings.HasPrefix(l, "panic:") || strings.HasPrefix(l, "runtime:") || strings.HasPrefix(l, "HANG") {
			if len(l) > 80 {
				l = l[:80]
			}
			return l
		}
	}
	return "child died"
}

func tail(s string, n int) string {
	lines := strings.Split(s, "\n")
	if len(lines) > n {
		lines = lines[:n]
	}
	return strings.Join(lines, "\n")
}

// outDirs: evidence and replay directories of the current run.
var outDirs = [2]string{}

// DriverMain runs a whole check and returns the process exit code.
func DriverMain(prop, tier string, seed int64, self, raceBin string) int {
	start := time.Now()
	m := Lookup(prop)
	if m == nil {
		fmt.Printf("unknown property %s\n", prop)
		return 2
	}
	n := m.Cases(tier)
	work := filepath.Join(VerifDir, "work", prop+"-"+tier)
	evDir, rpDir := filepath.Join(VerifDir, "evidence"), filepath.Join(VerifDir, "replay")
	if tag := os.Getenv("VERIF_WORK_TAG"); tag != "" {
		// alternative repository under test (mutation testing): keep its outputs apart from the registered evidence
		work = filepath.Join(VerifDir, "work", "alt-"+tag, prop+"-"+tier)
		evDir, rpDir = filepath.Join(work, "evidence"), filepath.Join(work, "replay")
	}
	outDirs = [2]string{evDir, rpDir}
	os.RemoveAll(work)
	if err := os.MkdirAll(work, 0o755); err != nil {
		fmt.Println(err)
		return 2
	}
	os.MkdirAll(evDir, 0o755)
	os.MkdirAll(rpDir, 0o755)

	shards := runtime.NumCPU()
	if shards > 16 {
		shards = 16
	}
	if m.MaxShards > 0 && shards > m.MaxShards {
		shards = m.MaxShards
	}
	if m.Serial {
		shards = 1
	}
	if n < shards*4 {
		shards = (n + 3) / 4
		if shards < 1 {
			shards = 1
		}
	}
	bin := self
	if m.Race {
		bin = raceBin
	}
	limit := 20 * time.Minute
	if tier == "thorough" {
		limit = 4 * time.Hour
	}
	if v := os.Getenv("VCHECK_LIMIT_SECS"); v != "" {
		if s, e := strconv.Atoi(v); e == nil {
			limit = time.Duration(s) * time.Second
		}
	}

	mg := &merged{counters: map[string]int64{}, distinct: map[uint64]struct{}{}, violByKey: map[string]int64{},
		firstByKey: map[string]string{}, notes: map[string]string{}}

	var wg sync.WaitGroup
	for s := 0; s < shards; s++ {
		from := n * s / shards
		to := n * (s + 1) / shards
		wg.Add(1)
		go func(s, from, to int) {
			defer wg.Done()
			attempt := 0
			for from < to {
				prefix := filepath.Join(work, fmt.Sprintf("s%02d-a%03d", s, attempt))
				errf, _ := os.Create(prefix + ".err")
				cmd := exec.Command(bin, "child", prop, tier, strconv.FormatInt(seed, 10), strconv.Itoa(from), strconv.Itoa(to), prefix)
				cmd.Stdout = errf
				cmd.Stderr = errf
				cmd.Env = append(os.Environ(), "VERIF_DIR="+VerifDir)
				if m.Race {
					cmd.Env = append(cmd.Env, "GORACE=halt_on_error=0 exitcode=0 history_size=2 log_path="+prefix+".race", "VCHECK_RACE_LOG="+prefix+".race")
				}
				if err := cmd.Start(); err != nil {
					errf.Close()
					mg.mu.Lock()
					mg.inconcl = append(mg.inconcl, "cannot start child: "+err.Error())
					mg.mu.Unlock()
					return
				}
				done := make(chan error, 1)
				go func() { done <- cmd.Wait() }()
				var werr error
				timedOut := false
				select {
				case werr = <-done:
				case <-time.After(limit):
					cmd.Process.Signal(os.Interrupt)
					cmd.Process.Kill()
					<-done
					timedOut = true
				}
				errf.Close()
				if m.Race {
					mg.mu.Lock()
					mg.raceReports += countRaceReports(prefix + ".race")
					mg.mu.Unlock()
				}
				if timedOut {
					mg.mu.Lock()
					mg.inconcl = append(mg.inconcl, fmt.Sprintf("shard %d exceeded the wall-clock watchdog (%s) at case %d", s, limit, lastBegun(prefix+".log")))
					mg.mu.Unlock()
					return
				}
				if werr == nil {
					if err := mg.absorb(prefix); err != nil {
						mg.mu.Lock()
						mg.inconcl = append(mg.inconcl, "cannot read child result: "+err.Error())
						mg.mu.Unlock()
					}
					return
				}
				// abnormal exit: attribute to the last begun case, then continue after it
				eb, _ := os.ReadFile(prefix + ".err")
				idx := lastBegun(prefix + ".log")
				sig := fatalSignature(string(eb))
				if site := selfDeadlock(string(eb)); strings.HasPrefix(sig, "HANG") && !m.Race && site != "" {
					// Not a matter of time: the goroutine that runs the case is parked in the library's own
					// mutex.Lock and no other goroutine of the process is inside the library, so nothing can ever
					// unlock it. (The watchdog only decided WHEN to look.)
					mg.fatal("deadlock:"+site, fmt.Sprintf("case %d: the call never returns - its goroutine waits in (*stack).lock for a mutex that no goroutine inside the library holds or can release\n%s", idx, tail(string(eb), 40)), idx)
					mg.mu.Lock()
					mg.hangs++
					giveUp := mg.hangs > 4 // (the verdict is in; every further deadlock costs another watchdog period)
					mg.mu.Unlock()
					if giveUp {
						return
					}
				} else if strings.HasPrefix(sig, "HANG") {
					mg.mu.Lock()
					mg.inconcl = append(mg.inconcl, fmt.Sprintf("case %d made no progress within the hang watchdog (inconclusive); see %s.err", idx, prefix))
					mg.hangs++
					giveUp := mg.hangs > 24
					if giveUp && mg.hangs == 25 {
						mg.inconcl = append(mg.inconcl, "more than 24 cases made no progress: the remaining cases of the shards concerned are not run (what was observed until then stands)")
					}
					mg.mu.Unlock()
					if giveUp {
						// (each further hang would cost another watchdog period; violations already recorded decide the
						// run, otherwise it is inconclusive either way)
						return
					}
				} else {
					site := panicSite("panic(\n" + string(eb))
					mg.fatal("fatal:"+site, fmt.Sprintf("child process died at case %d: %s\n%s", idx, sig, tail(string(eb), 30)), idx)
				}
				if idx < from {
					// died before the first case (setup) — cannot make progress
					mg.mu.Lock()
					mg.inconcl = append(mg.inconcl, fmt.Sprintf("child died before its first case; see %s.err", prefix))
					mg.mu.Unlock()
					return
				}
				// the partial results of the dead child are lost; re-run its prefix is not needed for verdicts
				// (violations found before the crash are re-found deterministically only if we re-run; do so cheaply)
				mg.mu.Lock()
				mg.restarts++
				tooMany := mg.restarts > 300
				mg.mu.Unlock()
				if tooMany {
					return
				}
				if idx > from {
					// re-run [from, idx) in a fresh child so nothing observed there is lost
					prefix2 := filepath.Join(work, fmt.Sprintf("s%02d-a%03dr", s, attempt))
					errf2, _ := os.Create(prefix2 + ".err")
					cmd2 := exec.Command(bin, "child", prop, tier, strconv.FormatInt(seed, 10), strconv.Itoa(from), strconv.Itoa(idx), prefix2)
					cmd2.Stdout, cmd2.Stderr = errf2, errf2
					cmd2.Env = cmd.Env
					if cmd2.Run() == nil {
						mg.absorb(prefix2)
					}
					errf2.Close()
				}
				from = idx + 1
				attempt++
			}
		}(s, from, to)
	}
	wg.Wait()

	return finish(m, mg, prop, tier, seed, n, start)
}

// selfDeadlock inspects the goroutine dump a child wrote when its hang watchdog fired. It returns the public library
// method at fault if goroutine 1 (which runs the cases) is parked in sync.Mutex.Lock called from (*stack).lock while no
// other goroutine has a frame inside the library; "" otherwise.
func selfDeadlock(dump string) string {
	blocks := strings.Split(dump, "\n\n")
	site, others := "", false
	for _, b := range blocks {
		b = strings.TrimLeft(b, "\n")
		if i := strings.Index(b, "goroutine "); i > 0 {
			b = b[i:] // (the first block is preceded by the HANG line)
		}
		if !strings.HasPrefix(b, "goroutine ") {
			continue
		}
		if strings.HasPrefix(b, "goroutine 1 [") {
			if !strings.Contains(b, "go-stackage.(*stack).lock(") || !(strings.Contains(b, "sync.(*Mutex).Lock") || strings.Contains(b, "sync.Mutex.Lock")) {
				return ""
			}
			site = "(*stack).lock"
			for _, l := range strings.Split(b, "\n") {
				if j := strings.Index(l, "go-stackage.Stack."); j >= 0 {
					site = strings.SplitN(l[j+len("go-stackage."):], "(", 2)[0]
					break
				}
				if j := strings.Index(l, "go-stackage.Condition."); j >= 0 {
					site = strings.SplitN(l[j+len("go-stackage."):], "(", 2)[0]
					break
				}
			}
			continue
		}
		if strings.Contains(b, "go-stackage.") {
			others = true
		}
	}
	if others {
		return ""
	}
	return site
}

func countRaceReports(prefix string) int64 {
	matches, _ := filepath.Glob(prefix + ".*")
	var n int64
	for _, f := range matches {
		b, err := os.ReadFile(f)
		if err != nil {
			continue
		}
		n += int64(strings.Count(string(b), "WARNING: DATA RACE"))
	}
	return n
}

func sortedKeys(m map[string]int64) []string {
	var ks []string
	for k := range m {
		ks = append(ks, k)
	}
	sort.Strings(ks)
	return ks
}

func finish(m *Monitor, mg *merged, prop, tier string, seed int64, n int, start time.Time) int {
	kf := LoadKnownFindings(filepath.Join(VerifDir, "KNOWN_FINDINGS.txt"))

	// floors
	if m.Floors != nil {
		for k, min := range m.Floors(tier) {
			if mg.counters[k] < min {
				mg.inconcl = append(mg.inconcl, fmt.Sprintf("coverage floor not met: %s=%d < %d", k, mg.counters[k], min))
			}
		}
	}
	if mg.evaluations == 0 {
		mg.inconcl = append(mg.inconcl, "no case was evaluated")
	}

	known := map[string]int64{}
	unknown := map[string]int64{}
	for k, v := range mg.violByKey {
		if kf.Matches(prop, k) {
			known[k] += v
		} else {
			unknown[k] += v
		}
	}

	// replay files for unlisted violations (first of each key)
	type out struct{ key, path string }
	var outs []out
	seenKey := map[string]bool{}
	for _, v := range mg.viol {
		if _, bad := unknown[v.Key]; !bad || seenKey[v.Key] {
			continue
		}
		seenKey[v.Key] = true
		path := filepath.Join(outDirs[1], fmt.Sprintf("%s-%016x.json", prop, Mix(HashStr(v.Key), uint64(v.Idx))))
		rb, _ := json.MarshalIndent(map[string]any{"property": prop, "tier": tier, "seed": seed, "idx": v.Idx,
			"key": v.Key, "msg": v.Msg, "case": v.Case, "count": mg.violByKey[v.Key], "proc_mode": v.Mode, "proc_from": v.From}, "", " ")
		os.WriteFile(path, rb, 0o644)
		outs = append(outs, out{v.Key, path})
	}
	for k := range unknown {
		if !seenKey[k] {
			path := filepath.Join(outDirs[1], fmt.Sprintf("%s-%016x.json", prop, HashStr(k)))
			rb, _ := json.MarshalIndent(map[string]any{"property": prop, "tier": tier, "seed": seed, "idx": -1,
				"key": k, "msg": mg.firstByKey[k], "count": mg.violByKey[k]}, "", " ")
			os.WriteFile(path, rb, 0o644)
			outs = append(outs, out{k, path})
		}
	}
	sort.Slice(outs, func(i, j int) bool { return outs[i].key < outs[j].key })

	// evidence
	hist := map[string]int64{}
	for k, v := range mg.counters {
		hist[k] = v
	}
	cov := map[string]any{
		"evaluations":         mg.evaluations,
		"distinct_nontrivial": len(mg.distinct),
		"rule":                m.Rule,
		"samples":             mg.samples,
		"observed":            hist,
		"cases_planned":       n,
		"child_restarts":      mg.restarts,
		"exhaustive":          m.Exhaustive != nil && m.Exhaustive(tier),
	}
	if m.Race {
		cov["race_detector_reports"] = mg.raceReports
	}
	if mg.counters["distinct-set-capped"] > 0 {
		cov["distinct_nontrivial_is_lower_bound"] = fmt.Sprintf("the per-child hash set is capped at %d entries; %d further non-trivial cases were not recorded", MaxDistinctPerChild, mg.counters["distinct-set-capped"])
	}
	if len(mg.notes) > 0 {
		cov["notes"] = mg.notes
	}
	if len(known) > 0 {
		cov["known_findings_reproduced"] = known
	}
	if len(unknown) > 0 {
		cov["violation_keys"] = unknown
	}
	if len(mg.inconcl) > 0 {
		cov["inconclusive"] = mg.inconcl
	}
	if len(mg.samples) == 0 {
		cov["samples"] = []any{"(no sample recorded)"}
	}
	var nviol int64
	for _, v := range unknown {
		nviol += v
	}
	ev := map[string]any{
		"property_id": prop, "tier": tier, "seed": seed, "level": "exploration",
		"coverage": cov, "assumptions": m.Assumptions,
		"wall_s": time.Since(start).Seconds(), "violations": nviol,
	}
	eb, _ := json.MarshalIndent(ev, "", " ")
	evPath := filepath.Join(outDirs[0], prop+".json")
	os.WriteFile(evPath+".tmp", eb, 0o644)
	os.Rename(evPath+".tmp", evPath)

	// report
	fmt.Printf("%s %s seed=%d: %d cases, %d evaluations, %d distinct non-trivial, %.1fs\n", prop, tier, seed, n, mg.evaluations, len(mg.distinct), time.Since(start).Seconds())
	for _, k := range sortedKeys(mg.counters) {
		fmt.Printf("  observed %-40s %d\n", k, mg.counters[k])
	}
	if m.Race {
		fmt.Printf("  race detector reports: %d\n", mg.raceReports)
	}
	for _, f := range kf.For(prop) {
		var cnt int64
		for k, v := range known {
			if f.Match(k) {
				cnt += v
			}
		}
		if cnt > 0 {
			fmt.Printf("KNOWN-FINDING: property=%s %s (key=%s, reproduced %d times)\n", prop, f.Text, f.Key, cnt)
		}
	}
	for i, o := range outs {
		if i == 15 {
			fmt.Printf("  ... and %d more violation signatures (see the evidence file)\n", len(outs)-i)
			break
		}
		fmt.Printf("VIOLATION property=%s replay=%s\n", prop, o.path)
		fmt.Printf("  key=%s count=%d\n  %s\n", o.key, mg.violByKey[o.key], tail(mg.firstByKey[o.key], 12))
	}
	if len(outs) > 0 {
		return 1
	}
	if len(mg.inconcl) > 0 {
		for _, s := range mg.inconcl {
			fmt.Printf("INCONCLUSIVE property=%s %s\n", prop, s)
		}
		return 2
	}
	if len(known) > 0 {
		fmt.Printf("HELD property=%s on everything observed, apart from the listed known findings\n", prop)
	} else {
		fmt.Printf("HELD property=%s on everything observed\n", prop)
	}
	return 0
}

// ReplayMain re-executes the single case recorded in a replay file.
func ReplayMain(path string) int {
	b, err := os.ReadFile(path)
	if err != nil {
		fmt.Println(err)
		return 2
	}
	var r struct {
		Property string `json:"property"`
		Tier     string `json:"tier"`
		Seed     int64  `json:"seed"`
		Idx      int    `json:"idx"`
		Mode     int    `json:"proc_mode"`
		From     int    `json:"proc_from"`
	}
	if err := json.Unmarshal(b, &r); err != nil {
		fmt.Println(err)
		return 2
	}
	m := Lookup(r.Property)
	if m == nil || r.Idx < 0 {
		fmt.Println("replay file does not name a re-runnable case")
		return 2
	}
	c := NewCtx(r.Property, r.Tier, r.Seed)
	c.ProcMode, c.ProcFrom = r.Mode, r.From
	if ProcWarm != nil {
		ProcWarm(c.ProcMode)
	}
	if m.Setup != nil {
		m.Setup(c)
	}
	if os.Getenv("VCHECK_REPLAY_HISTORY") == "1" && r.From >= 0 && r.From < r.Idx {
		// a violation that depends on what the process did before: re-run the cases the child ran before this one
		h := NewCtx(r.Property, r.Tier, r.Seed)
		h.ProcMode, h.ProcFrom = r.Mode, r.From
		for i := r.From; i < r.Idx; i++ {
			RunCaseGuarded(m, h, i)
		}
		fmt.Printf("replayed the %d preceding cases of the process first\n", r.Idx-r.From)
	}
	c.Verbose = true
	RunCaseGuarded(m, c, r.Idx)
	if m.Teardown != nil {
		m.Teardown(c)
	}
	for _, m := range c.Inconcl {
		fmt.Printf("INCONCLUSIVE property=%s %s\n", r.Property, m)
	}
	if len(c.Viol) == 0 {
		fmt.Printf("replay %s case %d: no violation\n", r.Property, r.Idx)
		return 0
	}
	for _, v := range c.Viol {
		fmt.Printf("VIOLATION property=%s replay=%s\n  key=%s\n  %s\n  case=%s\n", r.Property, path, v.Key, v.Msg, JSON(v.Case))
	}
	return 1
}
