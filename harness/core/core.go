// Package core is the shared machinery of the runtime monitors: deterministic
// PRNG, per-case context (counters, distinct-case set, samples, violations),
// monitor registry, child/driver protocol, evidence and known-findings files.
package core

import (
	"encoding/json"
	"fmt"
	"hash/fnv"
	"sort"
)

// ---------------------------------------------------------------- PRNG

// Rng is a splitmix64 generator: tiny, fast, identical on every Go version.
type Rng struct{ s uint64 }

func NewRng(seed uint64) *Rng { return &Rng{s: seed} }

func (r *Rng) U64() uint64 {
	r.s += 0x9e3779b97f4a7c15
	z := r.s
	z = (z ^ (z >> 30)) * 0xbf58476d1ce4e5b9
	z = (z ^ (z >> 27)) * 0x94d049bb133111eb
	return z ^ (z >> 31)
}

// Intn returns a value in [0,n). n<=0 yields 0.
func (r *Rng) Intn(n int) int {
	if n <= 0 {
		return 0
	}
	return int(r.U64() % uint64(n))
}

// Range returns a value in [lo,hi].
func (r *Rng) Range(lo, hi int) int { return lo + r.Intn(hi-lo+1) }

func (r *Rng) Bool() bool { return r.U64()&1 == 1 }

// Chance is true with probability num/den.
func (r *Rng) Chance(num, den int) bool { return r.Intn(den) < num }

func Mix(a, b uint64) uint64 {
	x := NewRng(a ^ (b * 0x9e3779b97f4a7c15))
	x.U64()
	return x.U64()
}

func HashStr(s string) uint64 {
	h := fnv.New64a()
	h.Write([]byte(s))
	return h.Sum64()
}

// CaseSeed derives the PRNG seed of case idx of a property.
func CaseSeed(seed int64, prop string, idx int) uint64 {
	return Mix(Mix(uint64(seed), HashStr(prop)), uint64(idx))
}

// ---------------------------------------------------------------- context

// Violation is one refuted case. Key is the signature used to match the
// known-findings file; Msg says what was observed; Case is the concrete input.
type Violation struct {
	Key  string `json:"key"`
	Msg  string `json:"msg"`
	Idx  int    `json:"idx"`
	Case any    `json:"case,omitempty"`
	Mode int    `json:"proc_mode"` // what the process had shown the library before its first case (see ProcWarm)
	From int    `json:"proc_from"` // first case of the process that observed it
}

// ProcWarm, when set, is called once per child process (and per replay) before the first case. mode 0 = cold start,
// 1 = the library has seen live values of every alias type first, 2 = it has seen zero values / typed nil pointers of
// every alias type first. Anything the library remembers per type for the life of a process is thereby met in both
// orders somewhere in every run.
var ProcWarm func(mode int)

// ProcCounters, when set, contributes process-wide counters to the child's result (e.g. what the library logged).
var ProcCounters func() map[string]int64

// ProcModeFor derives the mode of the child that starts at case `from`.
//
// Modes 3..5 are 0..2 with, in addition, user-installed package defaults in force for the whole process (an active
// default logger at every log level for Stacks and Conditions): every instance the case builds then logs.
func ProcModeFor(seed int64, from int) int { return int(Mix(uint64(seed), uint64(from)+0x51ed) % 6) }

const maxKeptViolations = 40
const maxSamples = 5

// Ctx collects what one child (or one replay) observed.
type Ctx struct {
	Prop string
	Tier string
	Seed int64
	// ProcMode / ProcFrom: see ProcWarm
	ProcMode int
	ProcFrom int
	Idx      int  // current case
	Rng      *Rng // re-seeded per case
	// Verbose is set in replay mode.
	Verbose bool

	Evaluations int64
	Counters    map[string]int64
	Distinct    map[uint64]struct{}
	Samples     []any
	Viol        []Violation       // first maxKeptViolations per child
	ViolByKey   map[string]int64  // full counts
	FirstByKey  map[string]string // first message per key
	Notes       map[string]string // free-form driver-visible notes
	Inconcl     []string          // reasons why this run cannot give a verdict
}

// Inconclusive records that the run cannot give a verdict (never folded into held/violated).
func (c *Ctx) Inconclusive(msg string) {
	for _, m := range c.Inconcl {
		if m == msg {
			return
		}
	}
	c.Inconcl = append(c.Inconcl, msg)
}

func NewCtx(prop, tier string, seed int64) *Ctx {
	return &Ctx{Prop: prop, Tier: tier, Seed: seed,
		Counters: map[string]int64{}, Distinct: map[uint64]struct{}{},
		ViolByKey: map[string]int64{}, FirstByKey: map[string]string{}, Notes: map[string]string{}}
}

func (c *Ctx) Begin(idx int) {
	c.Idx = idx
	c.Rng = NewRng(CaseSeed(c.Seed, c.Prop, idx))
	c.Evaluations++
}

func (c *Ctx) Count(name string) { c.Counters[name]++ }

func (c *Ctx) Add(name string, n int64) { c.Counters[name] += n }

// MaxDistinctPerChild bounds the per-child set of non-trivial case hashes (memory); beyond it further cases are not
// recorded, so the reported distinct_nontrivial becomes a LOWER bound (the evidence file says when that happened).
const MaxDistinctPerChild = 1500000

// Nontrivial registers a non-trivial case by the hash of its canonical form.
func (c *Ctx) Nontrivial(h uint64) {
	if len(c.Distinct) >= MaxDistinctPerChild {
		c.Counters["distinct-set-capped"]++
		return
	}
	c.Distinct[h] = struct{}{}
}

func (c *Ctx) NontrivialStr(s string) { c.Nontrivial(HashStr(s)) }

// Sample keeps the first few concrete cases for the evidence file.
func (c *Ctx) Sample(v any) {
	if len(c.Samples) < maxSamples {
		c.Samples = append(c.Samples, v)
	}
}

func (c *Ctx) WantSample() bool { return len(c.Samples) < maxSamples }

func (c *Ctx) Violate(key, msg string, cas any) {
	c.ViolByKey[key]++
	if _, ok := c.FirstByKey[key]; !ok {
		c.FirstByKey[key] = msg
		// always keep the first of each key
		c.Viol = append(c.Viol, Violation{Key: key, Msg: msg, Idx: c.Idx, Case: cas, Mode: c.ProcMode, From: c.ProcFrom})
		return
	}
	if len(c.Viol) < maxKeptViolations {
		c.Viol = append(c.Viol, Violation{Key: key, Msg: msg, Idx: c.Idx, Case: cas, Mode: c.ProcMode, From: c.ProcFrom})
	}
}

func (c *Ctx) Violatef(key string, cas any, format string, a ...any) {
	c.Violate(key, fmt.Sprintf(format, a...), cas)
}

// ---------------------------------------------------------------- registry

// Monitor is one property's runtime check.
type Monitor struct {
	ID string
	// Cases is the fixed, seed-independent number of cases of a tier.
	Cases func(tier string) int
	// Run executes case idx (c.Rng is already seeded for it).
	Run func(c *Ctx, idx int)
	// Setup runs once per child before the first case (optional).
	Setup func(c *Ctx)
	// Teardown runs once per child after the last case (optional).
	Teardown func(c *Ctx)
	// Rule describes generation and the non-trivial/distinct rule.
	Rule        string
	Assumptions []string
	// Floors: minimum counter values per tier, else the run is inconclusive.
	Floors func(tier string) map[string]int64
	// Exhaustive says whether the case list of the tier enumerates a finite space completely.
	Exhaustive func(tier string) bool
	// Race: the child must be the -race binary; race logs are collected.
	Race bool
	// Serial: cases of this monitor use all cores themselves; run one child at a time.
	Serial bool
	// MaxShards limits parallel children (0 = default).
	MaxShards int
	// RaceClassify maps a parsed race report to a violation key ("" = ignore).
	RaceClassify func(r RaceReport, notes map[string]string) string
}

var registry = map[string]*Monitor{}

func Register(m *Monitor) { registry[m.ID] = m }

func Lookup(id string) *Monitor { return registry[id] }

func IDs() []string {
	var ids []string
	for k := range registry {
		ids = append(ids, k)
	}
	sort.Strings(ids)
	return ids
}

// JSON renders v compactly for messages; never fails.
func JSON(v any) string {
	b, err := json.Marshal(v)
	if err != nil {
		return fmt.Sprintf("%+v", v)
	}
	return string(b)
}
