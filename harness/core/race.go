package core

import (
	"os"
	"path/filepath"
	"regexp"
	"strconv"
	"strings"
)

// RaceAccess is one side of a race report.
type RaceAccess struct {
	Write  bool
	Addr   uint64
	Frames []string // function names, innermost first
}

// RaceReport is one parsed "WARNING: DATA RACE" block.
type RaceReport struct {
	A, B RaceAccess
	Raw  string
}

var raceHead = regexp.MustCompile(`^(Previous )?(read|write|Read|Write)( at)? (0x[0-9a-f]+) by `)

// ParseRaceLogs parses every file matching prefix.* written by the race runtime.
func ParseRaceLogs(prefix string) []RaceReport {
	var out []RaceReport
	matches, _ := filepath.Glob(prefix + ".*")
	for _, f := range matches {
		b, err := os.ReadFile(f)
		if err != nil {
			continue
		}
		out = append(out, ParseRaceText(string(b))...)
	}
	return out
}

func ParseRaceText(text string) []RaceReport {
	var out []RaceReport
	blocks := strings.Split(text, "WARNING: DATA RACE")
	for _, blk := range blocks[1:] {
		if i := strings.Index(blk, "=================="); i >= 0 {
			blk = blk[:i]
		}
		var rep RaceReport
		rep.Raw = blk
		var cur *RaceAccess
		n := 0
		for _, l := range strings.Split(blk, "\n") {
			if m := raceHead.FindStringSubmatch(l); m != nil {
				n++
				if n == 1 {
					cur = &rep.A
				} else if n == 2 {
					cur = &rep.B
				} else {
					cur = nil
				}
				if cur != nil {
					cur.Write = strings.EqualFold(m[2], "write")
					cur.Addr, _ = strconv.ParseUint(m[4][2:], 16, 64)
				}
				continue
			}
			if strings.HasPrefix(l, "Goroutine ") {
				cur = nil
				continue
			}
			if cur != nil && strings.HasPrefix(l, "  ") && !strings.HasPrefix(l, "      ") {
				fn := strings.TrimSpace(l)
				if j := strings.LastIndex(fn, "("); j > 0 {
					fn = fn[:j]
				}
				if fn != "" {
					cur.Frames = append(cur.Frames, fn)
				}
			}
		}
		out = append(out, rep)
	}
	return out
}
