#!/usr/bin/env python3
"""Rewrites section 6 of DESIGN.md from /verif/seeded/*/meta.json and detection.txt."""
import json, glob, os, re
rows=[]
for d in sorted(glob.glob('/verif/seeded/C*-*')):
    name=os.path.basename(d)
    if os.path.exists(d+'/REJECTED') or not os.path.exists(d+'/meta.json'):
        continue
    m=json.load(open(d+'/meta.json'))
    title=(m.get('title') or m.get('what_changed') or '').replace('|','/').replace('\n',' ')
    needs=(m.get('needs_to_manifest') or '').replace('|','/').replace('\n',' ')
    if len(needs)>160: needs=needs[:157]+'...'
    caught=m.get('caught_by',[])
    own=m.get('breaks_property')
    keys=''
    det=d+'/detection.txt'
    if os.path.exists(det):
        for l in open(det):
            if l.startswith(own+' ') and 'key=' in l:
                ks=re.findall(r'key=([^ ;]+)',l)
                keys=', '.join(ks[:3])
    rows.append((name,own,title,needs,caught,keys))
out=[]
out.append("## 6. Seeded changes and detection\n")
out.append("Each change below was written by a fresh sub-agent that was given only the text of one property and a scratch\n"
"worktree of `/repo` (nothing from `/verif`). Every one was re-confirmed independently by `seedcheck.sh` in another scratch\n"
"worktree: the patch applies to the current `/repo` HEAD, builds, the unedited repository suite still passes with it, the\n"
"agent's demonstration test fails with it and passes without it. Then the **quick** tier of the checks was run against the\n"
"patched tree (`VERIF_REPO`, never `/repo` itself). `seeded/<id>/` holds `patch.diff`, `demo_test.go`, `meta.json` (what it\n"
"needs in order to manifest, what was run) and `detection.txt` (exit code and violation keys per check).\n")
n=len(rows); own=sum(1 for r in rows if r[1] in r[4]); anyc=sum(1 for r in rows if r[4])
out.append(f"{n} confirmed changes; {own} are caught by the check of the property they target, {anyc} by at least one check.\n")
out.append("| id | seeded defect | needs | caught by (quick) | keys reported by the target check |")
out.append("|---|---|---|---|---|")
for name,ownp,title,needs,caught,keys in rows:
    c=' '.join(('**'+x+'**' if x==ownp else x) for x in caught) or '**none**'
    out.append(f"| {name} | {title} | {needs} | {c} | {keys} |")
hist='/verif/seeded/HISTORY.md'
if os.path.exists(hist):
    out.append("")
    out.append(open(hist).read())
s=open('/verif/DESIGN.md').read()
i=s.index('## 6. Seeded changes and detection')
open('/verif/DESIGN.md','w').write(s[:i]+'\n'.join(out)+'\n')
print(n,own,anyc)
