#!/bin/bash
# ./seedsweep.sh [tier] [seeds...] — silence sweep: every check at several VERIF_SEED values
D="$(cd "$(dirname "${BASH_SOURCE[0]}")" && pwd)"
tier="${1:-quick}"; shift
seeds="${@:-2 3 7 42 1000003}"
rc=0
for s in $seeds; do
  echo "=== VERIF_SEED=$s tier=$tier"
  VERIF_SEED=$s "$D/runall.sh" "$tier" || rc=1
done
exit $rc
