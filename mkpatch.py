#!/usr/bin/env python3
"""mkpatch.py <out.diff> <file> <old> <new> [<file> <old> <new> ...] — builds a git-apply-able patch against /repo's working tree."""
import sys, difflib
out=sys.argv[1]; args=sys.argv[2:]
chunks=[]
files={}
for i in range(0,len(args),3):
    f,old,new=args[i:i+3]
    s=files.get(f) or open('/repo/'+f).read()
    assert s.count(old)==1, (f, old[:50], s.count(old))
    files[f]=s.replace(old,new)
for f,new in files.items():
    old=open('/repo/'+f).read()
    chunks.append(''.join(difflib.unified_diff(old.splitlines(True),new.splitlines(True),'a/'+f,'b/'+f)))
open(out,'w').write(''.join(chunks))
