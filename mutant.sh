#!/bin/bash
# ./mutant.sh <patch.diff> <tier> <Cxx> [Cxx...]
# Applies a patch to a scratch worktree of /repo (never to /repo itself), confirms that it still compiles and
# passes the repository suite, runs the named checks against it, removes the worktree again.
# Exit 0 if at least one of the named checks reported a VIOLATION (mutant detected), 1 otherwise.
set -u
export GOFLAGS=-mod=mod GOPROXY=off GOSUMDB=off GOTOOLCHAIN=local
patch="$(readlink -f "$1")"; tier="$2"; shift 2
wt="$(mktemp -d /tmp/mut-XXXXXX)"; rmdir "$wt"
git -C /repo worktree add -q --detach "$wt" HEAD || exit 2
cleanup() { git -C /repo worktree remove --force "$wt" 2>/dev/null; rm -rf "$wt" "/verif/bin/alt-$(echo "$wt" | tr '/' '_')" "/verif/work/alt-$(basename "$wt")"; }
trap cleanup EXIT
if ! git -C "$wt" apply "$patch"; then echo "PATCH-DOES-NOT-APPLY"; exit 2; fi
( cd "$wt" && go build ./... ) || { echo "MUTANT-DOES-NOT-COMPILE"; exit 2; }
out=$(cd "$wt" && go test -count=1 -vet=off -timeout 120s ./... 2>&1 | tail -3)
if ! echo "$out" | grep -q '^ok'; then echo "MUTANT-FAILS-EXISTING-TESTS: $out"; exit 3; fi
det=1
for id in "$@"; do
  o=$(VERIF_REPO="$wt" /verif/run.sh "$id" "$tier" 2>&1); code=$?
  n=$(echo "$o" | grep -c '^VIOLATION')
  echo "$id: exit=$code violations=$n $(echo "$o" | grep -A1 '^VIOLATION' | grep 'key=' | head -3 | tr '\n' ' ')"
  [ "$n" -gt 0 ] && det=0
done
exit $det
