#!/bin/bash
# Runs the repository's own suite with the verif guard OFF and checks the pinned baseline (158 tests pass, none fail).
export GOFLAGS=-mod=mod GOPROXY=off GOSUMDB=off GOTOOLCHAIN=local
cd /repo || exit 2
out=$(go test -json -vet=off -count=1 -timeout 25m ./... 2>&1)
pass=$(printf '%s\n' "$out" | grep -c '"Action":"pass","Package":"[^"]*","Test":"[^"/]*"')
fail=$(printf '%s\n' "$out" | grep -c '"Action":"fail"')
echo "baseline (guard off): pass=$pass fail=$fail"
if [ "$fail" -ne 0 ] || [ "$pass" -lt 158 ]; then
  printf '%s\n' "$out" | grep -E '"Action":"(fail|output)"' | grep -v '"Output":"(=== |--- PASS|PASS|ok)' | head -40
  exit 1
fi
