#!/bin/bash
# ./seedcheck.sh <Cxx> <n> [extra check ids...]
# Confirms a sub-agent's seeded change (/tmp/seed-Cxx/seeded/n) independently in a scratch worktree of /repo:
#   patch applies + builds + existing suite passes; demo fails with it and passes without it;
# then runs the quick checks against the patched tree and records which ones report a VIOLATION.
# Result is stored under /verif/seeded/<Cxx>-<n>/ . /repo itself is never touched.
set -u
export GOFLAGS=-mod=mod GOPROXY=off GOSUMDB=off GOTOOLCHAIN=local
D="$(cd "$(dirname "${BASH_SOURCE[0]}")" && pwd)"
pid="$1"; n="$2"; shift 2; extra="$@"
out="/verif/seeded/$pid-$n"; mkdir -p "$out"
src="${SEED_SRC:-/tmp/seed-$pid/seeded/$n}"   # SEED_SRC: directory holding patch.diff / demo_test.go / meta.json of a new change
# once a change has been kept, it is re-checked from its own directory
[ -f "$src/patch.diff" ] || src="$out"
[ -f "$src/patch.diff" ] || { echo "$pid-$n: no patch"; exit 2; }
wt="$(mktemp -d /tmp/sc-XXXXXX)"; rmdir "$wt"
git -C /repo worktree add -q --detach "$wt" HEAD || exit 2
cleanup() { git -C /repo worktree remove --force "$wt" 2>/dev/null; rm -rf "$wt" "$D/bin/alt-$(echo "$wt" | tr '/' '_')" "$D/work/alt-$(basename "$wt")"; }
trap cleanup EXIT
res() { echo "$pid-$n: $1"; echo "$1" > "$out/REJECTED"; exit 3; }
rebased=""
if ! git -C "$wt" apply "$src/patch.diff" 2>/dev/null; then
  # the library has moved on since the patch was written (later fix: commits): retry with reduced context and keep the
  # re-based diff (the original is preserved as patch.as-written-by-agent.diff)
  git -C "$wt" apply -C1 "$src/patch.diff" 2>/dev/null || res "patch does not apply"
  git -C "$wt" diff > "$wt/.rebased.diff"
  rebased="$wt/.rebased.diff"
fi
( cd "$wt" && go build ./... ) >/dev/null 2>&1 || res "does not compile"
suite=$(cd "$wt" && go test -count=1 -vet=off -timeout 180s . 2>&1 | tail -1)
echo "$suite" | grep -q '^ok' || res "existing suite fails with the patch: $suite"
cp "$src/demo_test.go" "$wt/zz_seeded_demo_test.go"
demo_with=$(cd "$wt" && go test -count=1 -vet=off -timeout 180s -run "TestSeeded_${pid}_" . 2>&1 | tail -1)
echo "$demo_with" | grep -q '^ok' && res "demo passes WITH the patch"
git -C "$wt" checkout -q -- .
demo_without=$(cd "$wt" && go test -count=1 -vet=off -timeout 180s -run "TestSeeded_${pid}_" . 2>&1 | tail -1)
echo "$demo_without" | grep -q '^ok' || res "demo fails WITHOUT the patch: $demo_without"
rm -f "$wt/zz_seeded_demo_test.go"
if [ -n "$rebased" ]; then cp "$rebased" /tmp/.rebased.$$.diff; git -C "$wt" apply /tmp/.rebased.$$.diff; else git -C "$wt" apply "$src/patch.diff"; fi
rm -f "$out/REJECTED"
[ "$src" = "$out" ] || cp "$src/patch.diff" "$src/demo_test.go" "$out/"
if [ -n "$rebased" ]; then
  [ -f "$out/patch.as-written-by-agent.diff" ] || cp "$out/patch.diff" "$out/patch.as-written-by-agent.diff"
  cp /tmp/.rebased.$$.diff "$out/patch.diff"; rm -f /tmp/.rebased.$$.diff
fi
ids="C01 C02 C03 C04 C05 C06 C07 C08 C09 C12 C13 C14 C15 C16 C17 C18 C19 C20"
case "$pid" in C10|C11) ids="$ids C10 C11";; esac
for e in $extra; do case " $ids " in *" $e "*) ;; *) ids="$ids $e";; esac; done
# SEED_ONLY_OWN=1: re-check with the target property's own check only (plus the extras); what the other checks
# said at the last full run is kept in meta.json
if [ -n "${SEED_ONLY_OWN:-}" ]; then ids="$pid"; for e in $extra; do ids="$ids $e"; done; fi
if [ -n "${SEED_ONLY_OWN:-}" ] && [ -f "$out/detection.txt" ]; then
  for id in $ids; do sed -i "/^$id /d" "$out/detection.txt"; done
else
  : > "$out/detection.txt"
fi
caught=""
for id in $ids; do
  o=$(VERIF_REPO="$wt" "$D/run.sh" "$id" quick 2>&1); code=$?
  echo "$o" | grep -q BUILD-FAILED && { echo "$pid-$n: HARNESS BUILD FAILED"; exit 4; }
  nv=$(echo "$o" | grep -c '^VIOLATION')
  keys=$(echo "$o" | grep -A1 '^VIOLATION' | grep 'key=' | sed 's/^ *//' | head -4 | tr '\n' ';')
  echo "$id exit=$code violations=$nv $keys" >> "$out/detection.txt"
  [ "$nv" -gt 0 ] && caught="$caught $id"
done
[ -f "$src/meta.json" ] && cp "$src/meta.json" "$out/meta.agent.json" 2>/dev/null
python3 - "$out/meta.agent.json" "$out/meta.json" "$pid" "$n" "$caught" "$suite" "$demo_with" "$demo_without" "${SEED_ONLY_OWN:+$ids}" <<'PY'
import json,sys
src,dst,pid,n,caught,suite,dw,dwo,only=sys.argv[1:10]
if only:
    try:
        old=json.load(open(dst)).get("caught_by",[])
    except Exception:
        old=[]
    ran=only.split()
    caught=" ".join(sorted(set([x for x in old if x not in ran])|set(caught.split())))
try: m=json.load(open(src))
except Exception as e: m={"note":"agent meta.json unreadable: %s"%e}
m["breaks_property"]=pid
m["confirmed_by"]="seedcheck.sh in a scratch worktree of /repo HEAD (never applied to /repo)"
m["confirmation"]={"existing_suite_with_patch":suite.strip(),"demo_with_patch":dw.strip()[:200],"demo_without_patch":dwo.strip()[:200]}
m["checks_run"]="quick tier of every check listed in detection.txt, against the patched scratch worktree (VERIF_REPO)"
m["caught_by"]=caught.split()
m["caught_by_own_property_check"]= pid in caught.split()
json.dump(m,open(dst,"w"),indent=1)
PY
echo "$pid-$n: confirmed; caught by:${caught:- NONE}"
