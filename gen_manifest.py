#!/usr/bin/env python3
"""Regenerates MANIFEST.json from the table below (kept in one place so the file is always schema-valid)."""
import json, subprocess

NOTE = ("Each child process starts in one of six first-sight modes (cold / live alias values seen first / zero and typed-nil alias values seen first, each with or without user-installed package defaults); option spellings vary per case (build styles); in a quarter of the cases every harness-built stack has its mutex enabled and a process-wide lock watcher reports re-acquired and leaked locks. In one case of sixteen of the single-goroutine monitors two bystander goroutines question private values of their own while the case runs; harness-built stacks also come with a past (emptied again, or constructed next to a released sibling whose kept handle stays in use) and with several spellings of 'no capacity'. Trusted base: the Go toolchain, the VerifDump/verifPoint hooks (read-only accessor + three call sites in lock()/unlock()), "
        "and the reference model written in /verif/harness/mon from the property statement. Verdict covers only the executions produced.")

P = {
 "C01": dict(tech="runtime monitor: sequential list model checked after every operation of exhaustive short and random long histories",
   text="Exploration: every mutator history of length <=3 (quick) / <=4 (thorough) over a 14-symbol alphabet on start lengths 0..3 plus 200k / 10M random 40-op histories, each on a random kind x LIFO/FIFO x capacity x index-option configuration; after every single op all content observers and return values are compared with an executable list model. Held on the executions produced, not a proof.", ref="2 C01"),
 "C02": dict(tech="runtime monitor: differential against an independent reference renderer written from the statement, over exhaustive flag products and random trees",
   text="Exploration: 10,240 exhaustive two-level flag/kind products plus 300k / 10M random trees with per-node presentation options, Unicode (incl. interior exotic white space), blank-run, empty, numeric and stringer leaves and valid/invalid Conditions; String() and fmt %s compared byte-for-byte with the reference rendering.", ref="2 C02"),
 "C03": dict(tech="runtime monitor: list model with capacity, checked after every op of exhaustive short and random sawtooth histories; raw slice length read through VerifDump",
   text="Exploration: all histories of length <=3 / <=4 over 13 growth/shrink symbols for k in 1..3 plus 200k / 5M random sawtooth histories (k in 1..6, no/zero/negative capacity argument, a quarter under a permissive push policy); Len<=k, Cap/Avail/IsFull arithmetic, raw length and kept-earliest content compared with the model after every op; plus 6k / 150k concurrent cases (2-5 goroutines growing one mutex-enabled capacity stack, half through a yielding push policy, Len<=k watched continuously, arithmetic and content at the end).", ref="2 C03"),
 "C04": dict(tech="runtime monitor: round-trip oracle against the tree description (reference Unmarshal shape, node-by-node walk of the reconstruction, second Unmarshal, IsEqual)",
   text="Exploration: 250k / 10M random trees of all kinds with empty stacks, chains, label-like strings, nil leaves and Conditions holding primitives, Stacks or Conditions; four assertions per tree and per Marshal calling convention.", ref="2 C04"),
 "C05": dict(tech="runtime monitor: metamorphic oracle - independently rebuilt copies must compare equal, every single-point mutant must compare unequal, in both directions",
   text="Exploration: 20k / 1M random tree descriptions with composite leaves (pointers of depth 1-3, slices incl. nil pointer elements, arrays, maps, structs); each instantiated twice and once per single-point mutation incl. case-only changes (about 150k / 7M mutants), four directed IsEqual calls per mutant, every call under recover.", ref="2 C05"),
 "C06": dict(tech="runtime monitor: Condition state machine (acceptance rules, validity rule, rendering grammar) compared after every setter call of exhaustive and random histories",
   text="Exploration: all setter histories of length <=3 / <=5 over a 10-symbol alphabet from three starts plus 400k / 10M random histories over accepted and rejected arguments; Keyword/Operator/Expression/Err/Valid/String compared with the model after every call.", ref="2 C06"),
 "C07": dict(tech="runtime monitor: differential against a reference descent written over Index/Convert*/Expression, all short paths per random tree",
   text="Exploration: 12k / 600k random trees (nil slots, Conditions, aliases, per-stack index options); per tree all paths of length 0..3 over [-1,5] and 600 sampled deeper ones (about 9M paths in quick); exact value (type and identity) and success flag compared with stepwise descent.", ref="2 C07"),
 "C08": dict(tech="runtime monitor: exhaustive hostile-index and awkward-value sweeps over reflection-enumerated methods, list-model verdicts, recursive VerifDump diff and a 17-step observer battery",
   text="Exploration, exhaustive over the stated finite catalogue: every int-taking Stack method x {MinInt..MaxInt boundary set} x lengths 0..4 / 0..7 x index options x capacity, every any-taking Stack/Condition method x 55 awkward values, each value in five element roles (the fifth: seven structural positions of small trees under the tree-walking calls); no panic, failure+unchanged snapshot for non-addressing indices, configuration slot intact and all observers still usable afterwards.", ref="2 C08"),
 "C09": dict(tech="runtime monitor: reflection-enumerated methods invoked on read-only instances (and on other instances with the read-only one as argument or nested element), recursive VerifDump before/after diff, writable-twin measurement",
   text="Exploration: every exported method of *Stack/*Condition x argument variants x 24 / 96 richly configured random instances, 40k / 200k random call sequences, and 40k / 200k foreign-role cases (read-only instance as argument of, or nested inside, a writable receiver incl. structure-rewriting calls); nothing but the documented exceptions may differ in the raw record, Free must refuse, clearing the flag restores mutability.", ref="2 C09"),
 "C10": dict(tech="runtime monitor: deterministic interleaving explorer over the lock-point hook (cooperative scheduler, snapshot oracle for 'writes only under the lock'), porcupine linearizability checking of recorded histories, free-running stress and conservation-checked hammer runs under the Go race detector with address-classified reports",
   text="Exploration: all interleavings (at lock-acquisition granularity) of all 2-worker x 1-op programs over 13 mutators x length 0..3 x LIFO/FIFO x 3 capacity modes, up to 200/400 interleavings of 1.5k / 60k sampled 2-3-worker programs, 1.5k / 40k free-running 3-7-goroutine histories, every history checked by porcupine against the sequential list model; 480 / 12k hammer runs (Pop/Push-back cyclers against Replace/Swap on a stack that holds at least two values in every sequential order: every call must succeed, length and unique content conserved); 338 duels (every ordered pair of the 13 mutators x LIFO/FIFO, 1.5k / 20k free-running trials each behind a spin barrier with a sweeping skew, each trial must end in one of the two sequential outcomes); race reports classified by address class, reading function and (for slot 0) writing function. The slice-header race of the unlocked prologue is a recorded known finding.", ref="2 C10",
   note="Trusted base: Go toolchain and race detector, porcupine v1.3.0, the verifPoint hook positions (immediately before Lock, after Lock, after Unlock), VerifDump, the cooperative scheduler and the sequential list model in the harness. Schedules are explored at lock-acquisition granularity only."),
 "C11": dict(tech="runtime monitor under the Go race detector: before/after VerifDump diff, answer stability and lock-freedom for every query; parallel readers with isolated-answer oracle; race-log parsing",
   text="Exploration: 3k / 60k random trees (computed identifiers, pure policies) with every judged query - the listed ones, every Is/Can method and the plain getters, reflection-enumerated and name-classified - issued twice around an answer-clobbering step with the lock-point hook watching for lock acquisitions, and 120 / 800 trees queried by 8-16 goroutines under -race; any race report, lock acquisition, answer deviation or snapshot difference is a violation.", ref="2 C11",
   note="Trusted base: Go toolchain and race detector (no false positives on pure Go, misses races that do not occur in the run), VerifDump, verifPoint, the name-based classification of methods into mutators/queries (an unclassified method makes the run inconclusive)."),
 "C12": dict(tech="runtime monitor: differential between an all-native tree and the same description with random alias forms, across String/Unmarshal/IsEqual/Traverse/IsNesting/Len/no-nesting/Transfer/Defrag/Convert*",
   text="Exploration: 60k / 3M description pairs with six alias forms (value/pointer; no String, delegating String, divergent String); every path of length <=3 traversed on both twins, every alias form found probed against no-nesting stacks and Conditions, Convert* checked for identity on convertible and (zero,false) on 18 non-convertible values; a third of the pairs carry per-node user closures and are compared against a native twin as baseline.", ref="2 C12"),
 "C13": dict(tech="runtime monitor: list model with the no-nesting bit over random push-batch/option-switch histories; Condition expression state machine",
   text="Exploration: 200k / 10M random histories of mixed push batches (native, alias, pointer-to-alias Stacks, Conditions, primitives, nil) interleaved with option switches, on all kinds and on Conditions; content identity, CanNest and IsNesting checked after every step.", ref="2 C13"),
 "C14": dict(tech="runtime monitor: recording closures with predicate-defined verdicts; call-log, content and Err identity oracle for push policies; closure-result vs never-configured-twin oracle for the other closures",
   text="Exploration: 140k / 7M push histories under random accept/reject predicates with and without capacity, and 60k / 3M install/remove sequences of validity, presentation, equality (incl. self comparison), marshal, unmarshal and evaluator closures on Stacks of every kind and on Conditions.", ref="2 C14"),
 "C15": dict(tech="runtime monitor: exhaustive product of source/destination shapes with recursive VerifDump before/after diff",
   text="Exploration, exhaustive over the stated finite product (29k cases: lengths 0..6 x 0..6, capacity none/1..8, LIFO/FIFO, nil elements, 11 destination forms); success implies dst0++src, capacity shortage and inert destinations imply false and an unchanged destination, the source never changes.", ref="2 C15"),
 "C16": dict(tech="runtime monitor: grammar-based hostile []any generator plus mutated Unmarshal outputs, four Marshal calling modes under recover, post-call observer battery and label/growth rules",
   text="Exploration: 400k / 20M generated inputs (malformed CONDITION rows, empty and chained envelopes, typed nils, non-operators, ready-made and zero instances, mis-cased and near-miss labels), each marshalled into zero and live receivers both ways.", ref="2 C16"),
 "C17": dict(tech="runtime monitor: reflection-enumerated methods and go/parser-cross-checked package functions invoked on zero/freed receivers, inertness oracle",
   text="Exploration: every exported method of Stack/Condition/Auxiliary x argument variants x {zero, freed, Init-only} receivers, every exported package function x awkward arguments, 20k / 200k Free/Reset lifecycle cases (complete, partial, Init-only, invalid, read-only instances) and 30k / 2M random call sequences on dead receivers; a function missing from the table or a method unreachable by reflection makes the run inconclusive.", ref="2 C17"),
 "C18": dict(tech="runtime monitor: bit-set/settings model compared with the raw option bits (VerifDump), getters and reference rendering after every call; exhaustive short sequences",
   text="Exploration: all {set,clear,toggle} x option sequences of length <=3 / <=4 from several start states (Stacks: 8 options, Conditions: 4 setters) plus 100k / 5M random 30-call sequences mixing every string-valued setting, log levels, auxiliary map and the FIFO latch.", ref="2 C18"),
 "C19": dict(tech="runtime monitor: exhaustive nil/non-nil patterns against the filter-non-nil oracle, result-shape classifier with per-pattern pinned known outcomes",
   text="Exploration: all patterns of length <=10 / <=12 x 3 scan limits x 4 index-option sets, 30k / 2M random long patterns (incl. long nil runs under explicit limits above 50) and 30k / 2M random nested trees; every wrong result is classified by shape. The truncation defect (finding defrag:truncation) is recorded, everything else is a violation.", ref="2 C19"),
 "C20": dict(tech="runtime monitor: before/after live descriptions with node identity; leaf-sequence, unwrapped-normal-form, depth and protected-node oracles; lock-point hook detecting re-entrant acquisition and leaked locks; concurrent phase with a wait-for graph over the lock events as deadlock verdict",
   text="Exploration: all single-child chains of length <=4 / <=5 over kind x parenthetical with three endings (33k / 333k) plus 200k / 10M random chain-biased trees with Conditions, aliases, empty stacks and mutex-enabled nodes; Reveal applied twice, five oracles per application. Concurrent phase (99 / ~1 250 runs of 3 000 / 6 000 rounds): Reveal loops on a mutex-enabled stack against push+pop / remove / reset / insert / reverse / swap of envelopes and against child.Transfer(parent), with private Reveals alongside; no panic, no deadlock (wait-for graph), every envelope returns with its leaf, the fixed part survives in order.", ref="2 C20"),
}

NOT_BUILT = "check not built yet in this session (planned; see DESIGN.md section 2)"

def main():
    commits = subprocess.run(["git","-C","/repo","log","--format=%h %s"],capture_output=True,text=True).stdout.splitlines()
    hook_commits = [c.split()[0] for c in commits if c.split(" ",1)[1].startswith("verif hooks")]
    checks=[]
    for pid in sorted(P):
        d=P[pid]
        checks.append({
          "property_id": pid,
          "quick_cmd": f"./run.sh {pid} quick",
          "thorough_cmd": f"./run.sh {pid} thorough",
          "evidence_file": f"/verif/evidence/{pid}.json",
          "replay_cmd_template": "./run.sh replay {path}",
          "engine": "vcheck",
          "level_claimed": {"category":"exploration","text":d["text"],"design_ref":d["ref"]},
          "level_note": d.get("note", NOTE),
          "technique": d["tech"],
        })
    allp=[json.loads(l)["id"] for l in open("/verif/properties.jsonl")]
    na=[{"property_id":p,"reason":NOT_BUILT} for p in allp if p not in P]
    m={
      "version":1,
      "setup_cmd":"./run.sh build",
      "hooks":{"guard":"verif","enable":"go build -tags verif (the harness module replaces github.com/JesseCoretta/go-stackage by /repo)",
               "baseline_off_cmd":"./baseline_off.sh","source_commits":hook_commits,"add_only":True},
      "engines":[{"name":"vcheck","path":"/verif/harness","serves_properties":sorted(P),
                  "kind_free_text":"Go driver/child harness: seeded case lists, reference-model monitors over the real library, VerifDump snapshots, lock-point scheduler, porcupine, race detector"}],
      "checks":checks,
      "not_applicable":na,
      "notes":"Every check: exit 0 held / exit 1 + VIOLATION line / exit 2 INCONCLUSIVE (never folded into the others). KNOWN_FINDINGS.txt lists recorded defects (finding:) and repaired ones (fixed:).",
    }
    json.dump(m,open("/verif/MANIFEST.json","w"),indent=1)
    print("checks:",len(checks),"not_applicable:",len(na))
main()
